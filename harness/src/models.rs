//! Hash models and stubs shared by all harnesses (DESIGN.md 1.1 / 1.2).
//!
//! The library is generic over `H: HashChain`, a public extension point. The harnesses
//! instantiate the *real* generic code with hashers a SAT solver can live with:
//!
//! * `HavocN`     – `update` ignores its input, every digest is a fresh symbolic value.
//!                  Every real hash behaviour is one of the havoc behaviours.
//! * `HavocSumN`  – as `HavocN`, and the Winternitz chain (`do_actual_hash_chain`, the trait's
//!                  own override point) is summarised by one havoc step.
//! * `ToyN`       – deterministic, order/position-sensitive, keyed by a symbolic 32-byte SALT
//!                  (a family of functions); 16-byte blocks, index loops only.
//! * `ToySumN`    – as `ToyN`, chain summarised by one toy digest over (buffer, from, to).
//! * `RecN`       – recording hasher: digests come from a symbolic tape, every query's first
//!                  64 bytes, its length and a fingerprint of the whole query are recorded.

use digest::{typenum::U32, FixedOutput, Output, OutputSizeUser, Update};
use hbs_lms::{HashChain, HashChainData};
use tinyvec::ArrayVec;

#[cfg(all(verif_check, not(kani)))]
pub use crate::kani;

/// Stub for `zeroize::optimization_barrier` (an empty `asm!` block Kani cannot compile).
pub fn noop_barrier<T: ?Sized>(_val: &T) {}

/// Stub for tinyvec's `<[T; N] as Array>::default` (`[(); N].map(|_| T::default())`).
/// Sound for the element types used by the library (u8, usize, ArrayVec<[u8; _]>, Option<&mut [u8]>):
/// all-zero is their `Default` value.
pub fn fast_default<T: Default, const N: usize>() -> [T; N] {
    if N == 0 || core::mem::size_of::<T>() == 0 {
        // zero-sized arrays (capacity 0 under a 1-level build): nothing to zero
        return core::array::from_fn(|_| T::default());
    }
    unsafe { core::mem::zeroed() }
}

#[cfg(any(kani, verif_check))]
#[inline(always)]
pub fn any_digest() -> [u8; 32] {
    #[cfg(not(kani))]
    use crate::kani;
    kani::any()
}
#[cfg(not(any(kani, verif_check)))]
#[inline(always)]
pub fn any_digest() -> [u8; 32] {
    [0u8; 32]
}

macro_rules! havoc {
    ($name:ident, $n:expr) => {
        #[derive(Debug, Default, Clone, PartialEq)]
        pub struct $name;
        impl OutputSizeUser for $name {
            type OutputSize = U32;
        }
        impl FixedOutput for $name {
            fn finalize_into(self, _out: &mut Output<Self>) {}
        }
        impl Update for $name {
            fn update(&mut self, _data: &[u8]) {}
        }
        impl HashChain for $name {
            const OUTPUT_SIZE: u16 = $n;
            const BLOCK_SIZE: u16 = 64;
            fn finalize(self) -> ArrayVec<[u8; 32]> {
                ArrayVec::from_array_len(any_digest(), $n)
            }
            fn finalize_reset(&mut self) -> ArrayVec<[u8; 32]> {
                ArrayVec::from_array_len(any_digest(), $n)
            }
        }
    };
}
havoc!(Havoc16, 16);
havoc!(Havoc24, 24);
havoc!(Havoc32, 32);

macro_rules! havoc_sum {
    ($name:ident, $n:expr) => {
        #[derive(Debug, Default, Clone, PartialEq)]
        pub struct $name;
        impl OutputSizeUser for $name {
            type OutputSize = U32;
        }
        impl FixedOutput for $name {
            fn finalize_into(self, _out: &mut Output<Self>) {}
        }
        impl Update for $name {
            fn update(&mut self, _data: &[u8]) {}
        }
        impl HashChain for $name {
            const OUTPUT_SIZE: u16 = $n;
            const BLOCK_SIZE: u16 = 64;
            fn finalize(self) -> ArrayVec<[u8; 32]> {
                ArrayVec::from_array_len(any_digest(), $n)
            }
            fn finalize_reset(&mut self) -> ArrayVec<[u8; 32]> {
                ArrayVec::from_array_len(any_digest(), $n)
            }
            fn do_actual_hash_chain(&mut self, hc_data: &mut HashChainData, from: usize, to: usize) {
                if from < to {
                    let d = any_digest();
                    hc_data[23..].copy_from_slice(&d[..$n]);
                }
            }
        }
    };
}
havoc_sum!(HavocSum16, 16);
havoc_sum!(HavocSum24, 24);
havoc_sum!(HavocSum32, 32);

/// Key of the toy hash family. Harnesses assign a symbolic value before the first digest.
pub static mut SALT: [u8; 32] = [0u8; 32];

#[derive(Debug, Clone, PartialEq)]
pub struct ToyCore {
    a: u128,
    b: u128,
    buf: [u8; 16],
    fill: usize,
    blocks: u32,
}

impl ToyCore {
    #[inline(always)]
    fn compress(&mut self) {
        let v = u128::from_be_bytes(self.buf);
        self.a = self.a.rotate_left(9) ^ v ^ ((self.blocks as u128) << 96);
        self.b = self.b.rotate_left(23).wrapping_add(v.rotate_left(3)) ^ self.a;
        self.blocks = self.blocks.wrapping_add(1);
        self.buf = [0u8; 16];
        self.fill = 0;
    }
    #[inline(always)]
    pub fn new() -> Self {
        let k = unsafe { SALT };
        let mut x = [0u8; 16];
        let mut y = [0u8; 16];
        x.copy_from_slice(&k[..16]);
        y.copy_from_slice(&k[16..]);
        ToyCore { a: u128::from_be_bytes(x), b: u128::from_be_bytes(y), buf: [0u8; 16], fill: 0, blocks: 0 }
    }
    #[inline(always)]
    pub fn absorb(&mut self, data: &[u8]) {
        let mut off = 0;
        while off < data.len() {
            let take = core::cmp::min(16 - self.fill, data.len() - off);
            self.buf[self.fill..self.fill + take].copy_from_slice(&data[off..off + take]);
            self.fill += take;
            off += take;
            if self.fill == 16 {
                self.compress();
            }
        }
    }
    #[inline(always)]
    pub fn squeeze(mut self) -> [u8; 32] {
        let total = (self.blocks as u128) * 16 + self.fill as u128;
        self.compress();
        let mut d = [0u8; 32];
        let x = self.a ^ self.b.rotate_left(31) ^ total;
        let y = self.b ^ self.a.rotate_left(57);
        d[..16].copy_from_slice(&x.to_be_bytes());
        d[16..].copy_from_slice(&y.to_be_bytes());
        d
    }
}

/// One-shot toy digest, used by reference models.
pub fn toy_digest(parts: &[&[u8]]) -> [u8; 32] {
    let mut c = ToyCore::new();
    let mut i = 0;
    while i < parts.len() {
        c.absorb(parts[i]);
        i += 1;
    }
    c.squeeze()
}

macro_rules! toy {
    ($name:ident, $n:expr, $sum:expr) => {
        #[derive(Debug, Clone, PartialEq)]
        pub struct $name(pub ToyCore);
        impl Default for $name {
            fn default() -> Self {
                $name(ToyCore::new())
            }
        }
        impl OutputSizeUser for $name {
            type OutputSize = U32;
        }
        impl FixedOutput for $name {
            fn finalize_into(self, _out: &mut Output<Self>) {}
        }
        impl Update for $name {
            fn update(&mut self, data: &[u8]) {
                self.0.absorb(data)
            }
        }
        impl HashChain for $name {
            const OUTPUT_SIZE: u16 = $n;
            const BLOCK_SIZE: u16 = 64;
            fn finalize(self) -> ArrayVec<[u8; 32]> {
                ArrayVec::from_array_len(self.0.squeeze(), $n)
            }
            fn finalize_reset(&mut self) -> ArrayVec<[u8; 32]> {
                let r = self.0.clone().squeeze();
                self.0 = ToyCore::new();
                ArrayVec::from_array_len(r, $n)
            }
            fn do_actual_hash_chain(&mut self, hc_data: &mut HashChainData, from: usize, to: usize) {
                if $sum {
                    // chain summary: one digest over (I, q, chain id, start value, from, to)
                    if from < to {
                        let mut c = ToyCore::new();
                        c.absorb(&hc_data[..22]);
                        c.absorb(&hc_data[23..]);
                        c.absorb(&[from as u8, to as u8, 0x5a]);
                        let d = c.squeeze();
                        hc_data[23..].copy_from_slice(&d[..$n]);
                    }
                } else {
                    // same as the trait's default body, written with index loops
                    let mut j = from;
                    while j < to {
                        hc_data[22] = j as u8;
                        let mut c = ToyCore::new();
                        c.absorb(&hc_data[..]);
                        let d = c.squeeze();
                        hc_data[23..].copy_from_slice(&d[..$n]);
                        j += 1;
                    }
                }
            }
        }
    };
}
toy!(ToySum16, 16, true);
toy!(ToySum24, 24, true);
toy!(ToySum32, 32, true);

// `ToyLinN`: toy digests for ordinary hashing plus a *composable* chain summary, so that
// chain(a, max) . chain(0, a) == chain(0, max) holds by XOR algebra (needed by completeness
// harnesses): the chain of the step function F_j(x) = x ^ M(base, j) ^ M(base, j + 1) where
// base = toy(I, q, chain id). Position sensitive: a wrong from/to/chain id/start value changes the
// result. The default loop it replaces is verified separately (chain_default_loop harnesses).
#[inline(always)]
fn lin_mask(base: u128, j: usize) -> u128 {
    base.rotate_left((j as u32) & 127) ^ base.wrapping_add((j as u128) << 64 | j as u128)
}
macro_rules! toy_lin {
    ($name:ident, $n:expr) => {
        #[derive(Debug, Clone, PartialEq)]
        pub struct $name(pub ToyCore);
        impl Default for $name {
            fn default() -> Self {
                $name(ToyCore::new())
            }
        }
        impl OutputSizeUser for $name {
            type OutputSize = U32;
        }
        impl FixedOutput for $name {
            fn finalize_into(self, _out: &mut Output<Self>) {}
        }
        impl Update for $name {
            fn update(&mut self, data: &[u8]) {
                self.0.absorb(data)
            }
        }
        impl HashChain for $name {
            const OUTPUT_SIZE: u16 = $n;
            const BLOCK_SIZE: u16 = 64;
            fn finalize(self) -> ArrayVec<[u8; 32]> {
                ArrayVec::from_array_len(self.0.squeeze(), $n)
            }
            fn finalize_reset(&mut self) -> ArrayVec<[u8; 32]> {
                let r = self.0.clone().squeeze();
                self.0 = ToyCore::new();
                ArrayVec::from_array_len(r, $n)
            }
            fn do_actual_hash_chain(&mut self, hc_data: &mut HashChainData, from: usize, to: usize) {
                if from < to {
                    let mut c = ToyCore::new();
                    c.absorb(&hc_data[..22]);
                    let d = c.squeeze();
                    let mut b = [0u8; 16];
                    b.copy_from_slice(&d[..16]);
                    let base_a = u128::from_be_bytes(b);
                    b.copy_from_slice(&d[16..]);
                    let base_b = u128::from_be_bytes(b);
                    let ma = (lin_mask(base_a, from) ^ lin_mask(base_a, to)).to_be_bytes();
                    let mb = (lin_mask(base_b, from) ^ lin_mask(base_b, to)).to_be_bytes();
                    let mut k = 0;
                    while k < $n {
                        hc_data[23 + k] ^= if k < 16 { ma[k] } else { mb[k - 16] };
                        k += 1;
                    }
                }
            }
        }
    };
}
toy_lin!(ToyLin16, 16);
toy_lin!(ToyLin24, 24);
toy_lin!(ToyLin32, 32);

// `ToyN` keeps the library's *default* chain loop (no override): used where the chain loop itself
// is the subject.
macro_rules! toy_default_chain {
    ($name:ident, $n:expr) => {
        #[derive(Debug, Clone, PartialEq)]
        pub struct $name(pub ToyCore);
        impl Default for $name {
            fn default() -> Self {
                $name(ToyCore::new())
            }
        }
        impl OutputSizeUser for $name {
            type OutputSize = U32;
        }
        impl FixedOutput for $name {
            fn finalize_into(self, _out: &mut Output<Self>) {}
        }
        impl Update for $name {
            fn update(&mut self, data: &[u8]) {
                self.0.absorb(data)
            }
        }
        impl HashChain for $name {
            const OUTPUT_SIZE: u16 = $n;
            const BLOCK_SIZE: u16 = 64;
            fn finalize(self) -> ArrayVec<[u8; 32]> {
                ArrayVec::from_array_len(self.0.squeeze(), $n)
            }
            fn finalize_reset(&mut self) -> ArrayVec<[u8; 32]> {
                let r = self.0.clone().squeeze();
                self.0 = ToyCore::new();
                ArrayVec::from_array_len(r, $n)
            }
        }
    };
}
toy_default_chain!(Toy16, 16);
toy_default_chain!(Toy24, 24);
toy_default_chain!(Toy32, 32);

// ---------------------------------------------------------------------------------------------
// Recording hasher
// ---------------------------------------------------------------------------------------------

pub const REC_MAXQ: usize = 48;
pub const REC_PREFIX: usize = 64;

#[derive(Clone, Copy)]
pub struct RecQuery {
    /// first REC_PREFIX bytes of the query (zero padded)
    pub head: [u8; REC_PREFIX],
    /// total length of the query in bytes
    pub len: usize,
    /// toy fingerprint of the complete query (keyed by SALT)
    pub fp: [u8; 32],
    /// 0 = digest query, 1 = summarised Winternitz chain (head = chain buffer I|q|id|j|start value)
    pub kind: u8,
    pub from: usize,
    pub to: usize,
}

/// on-the-fly expectation for long query sequences (more queries than the tape holds): every query must be
/// I | q | u16(k) | 0xff | seed[..n] with k = running index; nothing is stored
pub struct RecExpect {
    pub active: bool,
    pub i: [u8; 16],
    pub q: [u8; 4],
    pub seed: [u8; 32],
    pub n: usize,
    pub ok: bool,
    pub count: usize,
}
pub static mut REC_EXPECT: RecExpect = RecExpect { active: false, i: [0; 16], q: [0; 4], seed: [0; 32], n: 0, ok: true, count: 0 };

pub struct RecState {
    pub q: [RecQuery; REC_MAXQ],
    pub nq: usize,
    pub tape: [[u8; 32]; REC_MAXQ],
    pub overflow: bool,
}

pub static mut REC: RecState = RecState {
    q: [RecQuery { head: [0u8; REC_PREFIX], len: 0, fp: [0u8; 32], kind: 0, from: 0, to: 0 }; REC_MAXQ],
    nq: 0,
    tape: [[0u8; 32]; REC_MAXQ],
    overflow: false,
};

#[derive(Debug, Clone, PartialEq)]
pub struct RecCore {
    head: [u8; REC_PREFIX],
    len: usize,
    fp: ToyCore,
}

impl RecCore {
    fn new() -> Self {
        RecCore { head: [0u8; REC_PREFIX], len: 0, fp: ToyCore::new() }
    }
    fn absorb(&mut self, data: &[u8]) {
        if self.len < REC_PREFIX {
            let take = core::cmp::min(REC_PREFIX - self.len, data.len());
            self.head[self.len..self.len + take].copy_from_slice(&data[..take]);
        }
        self.len += data.len();
        self.fp.absorb(data);
    }
    fn emit(&self) -> [u8; 32] {
        unsafe {
            if REC_EXPECT.active {
                let k = REC_EXPECT.count;
                let n = REC_EXPECT.n;
                let mut good = self.len == 23 + n;
                let mut j = 0;
                while j < 16 { if self.head[j] != REC_EXPECT.i[j] { good = false; } j += 1; }
                let mut j = 0;
                while j < 4 { if self.head[16 + j] != REC_EXPECT.q[j] { good = false; } j += 1; }
                if self.head[20] != (k >> 8) as u8 || self.head[21] != k as u8 || self.head[22] != 0xff { good = false; }
                let mut j = 0;
                while j < 32 { if j < n && self.head[23 + j] != REC_EXPECT.seed[j] { good = false; } j += 1; }
                if !good { REC_EXPECT.ok = false; }
                REC_EXPECT.count = k + 1;
                return any_digest();
            }
            let k = REC.nq;
            if k >= REC_MAXQ {
                REC.overflow = true;
                return [0u8; 32];
            }
            REC.q[k] = RecQuery { head: self.head, len: self.len, fp: self.fp.clone().squeeze(), kind: 0, from: 0, to: 0 };
            REC.nq = k + 1;
            REC.tape[k]
        }
    }
}

/// record a summarised chain call and return the tape digest for it
pub fn rec_chain(buf: &[u8], from: usize, to: usize) -> [u8; 32] {
    unsafe {
        let k = REC.nq;
        if k >= REC_MAXQ {
            REC.overflow = true;
            return [0u8; 32];
        }
        let mut head = [0u8; REC_PREFIX];
        head[..buf.len()].copy_from_slice(buf);
        REC.q[k] = RecQuery { head, len: buf.len(), fp: [0u8; 32], kind: 1, from, to };
        REC.nq = k + 1;
        REC.tape[k]
    }
}

macro_rules! rec {
    ($name:ident, $n:expr) => {
        #[derive(Debug, Clone, PartialEq)]
        pub struct $name(pub RecCore);
        impl Default for $name {
            fn default() -> Self {
                $name(RecCore::new())
            }
        }
        impl OutputSizeUser for $name {
            type OutputSize = U32;
        }
        impl FixedOutput for $name {
            fn finalize_into(self, _out: &mut Output<Self>) {}
        }
        impl Update for $name {
            fn update(&mut self, data: &[u8]) {
                self.0.absorb(data)
            }
        }
        impl HashChain for $name {
            const OUTPUT_SIZE: u16 = $n;
            const BLOCK_SIZE: u16 = 64;
            fn finalize(self) -> ArrayVec<[u8; 32]> {
                ArrayVec::from_array_len(self.0.emit(), $n)
            }
            fn finalize_reset(&mut self) -> ArrayVec<[u8; 32]> {
                let r = self.0.emit();
                self.0 = RecCore::new();
                ArrayVec::from_array_len(r, $n)
            }
        }
    };
}
rec!(Rec16, 16);
rec!(Rec24, 24);
rec!(Rec32, 32);

// RecSumN: as RecN, the Winternitz chain recorded as one summarised step (kind = 1)
macro_rules! rec_sum {
    ($name:ident, $n:expr) => {
        #[derive(Debug, Clone, PartialEq)]
        pub struct $name(pub RecCore);
        impl Default for $name {
            fn default() -> Self {
                $name(RecCore::new())
            }
        }
        impl OutputSizeUser for $name {
            type OutputSize = U32;
        }
        impl FixedOutput for $name {
            fn finalize_into(self, _out: &mut Output<Self>) {}
        }
        impl Update for $name {
            fn update(&mut self, data: &[u8]) {
                self.0.absorb(data)
            }
        }
        impl HashChain for $name {
            const OUTPUT_SIZE: u16 = $n;
            const BLOCK_SIZE: u16 = 64;
            fn finalize(self) -> ArrayVec<[u8; 32]> {
                ArrayVec::from_array_len(self.0.emit(), $n)
            }
            fn finalize_reset(&mut self) -> ArrayVec<[u8; 32]> {
                let r = self.0.emit();
                self.0 = RecCore::new();
                ArrayVec::from_array_len(r, $n)
            }
            fn do_actual_hash_chain(&mut self, hc_data: &mut HashChainData, from: usize, to: usize) {
                // recorded even when empty (from == to) so that the harness sees every chain call
                let d = rec_chain(&hc_data[..], from, to);
                if from < to {
                    hc_data[23..].copy_from_slice(&d[..$n]);
                }
            }
        }
    };
}
rec_sum!(RecSum16, 16);
rec_sum!(RecSum24, 24);
rec_sum!(RecSum32, 32);

/// fingerprint of a byte string as the recording hashers compute it (for queries longer than the head)
pub fn rec_fp(parts: &[&[u8]]) -> [u8; 32] {
    toy_digest(parts)
}

#[cfg(any(kani, verif_check))]
pub fn rec_reset_symbolic() {
    #[cfg(not(kani))]
    use crate::kani;
    unsafe {
        REC.nq = 0;
        REC.overflow = false;
        REC.tape = kani::any();
    }
}

#[cfg(any(kani, verif_check))]
pub fn salt_symbolic() {
    #[cfg(not(kani))]
    use crate::kani;
    unsafe {
        SALT = kani::any();
    }
}

// ---------------------------------------------------------------------------------------------
// RecEndsN: records only the FIRST and the LAST digest query (head, length, fingerprint) and counts
// all of them; digests are havoc and the Winternitz chain is one havoc step. Cheap enough to observe
// the message-digest and public-key-candidate pre-images of a whole LM-OTS operation.
// ---------------------------------------------------------------------------------------------
pub struct RecEnds {
    pub first: RecQuery,
    pub last: RecQuery,
    pub count: usize,
    pub chains: usize,
}
pub static mut REC_ENDS: RecEnds = RecEnds {
    first: RecQuery { head: [0u8; REC_PREFIX], len: 0, fp: [0u8; 32], kind: 0, from: 0, to: 0 },
    last: RecQuery { head: [0u8; REC_PREFIX], len: 0, fp: [0u8; 32], kind: 0, from: 0, to: 0 },
    count: 0,
    chains: 0,
};
pub fn rec_ends_reset() {
    unsafe {
        REC_ENDS.count = 0;
        REC_ENDS.chains = 0;
    }
}
#[derive(Debug, Clone, PartialEq)]
pub struct EndsCore {
    head: [u8; REC_PREFIX],
    len: usize,
}
impl EndsCore {
    fn new() -> Self {
        EndsCore { head: [0u8; REC_PREFIX], len: 0 }
    }
    fn absorb(&mut self, data: &[u8]) {
        if self.len < REC_PREFIX {
            let take = core::cmp::min(REC_PREFIX - self.len, data.len());
            self.head[self.len..self.len + take].copy_from_slice(&data[..take]);
        }
        self.len += data.len();
    }
    fn emit(&self) -> [u8; 32] {
        unsafe {
            let q = RecQuery { head: self.head, len: self.len, fp: [0u8; 32], kind: 0, from: 0, to: 0 };
            if REC_ENDS.count == 0 {
                REC_ENDS.first = q;
            }
            REC_ENDS.last = q;
            REC_ENDS.count += 1;
        }
        any_digest()
    }
}
macro_rules! rec_ends {
    ($name:ident, $n:expr) => {
        #[derive(Debug, Clone, PartialEq)]
        pub struct $name(pub EndsCore);
        impl Default for $name {
            fn default() -> Self {
                $name(EndsCore::new())
            }
        }
        impl OutputSizeUser for $name {
            type OutputSize = U32;
        }
        impl FixedOutput for $name {
            fn finalize_into(self, _out: &mut Output<Self>) {}
        }
        impl Update for $name {
            fn update(&mut self, data: &[u8]) {
                self.0.absorb(data)
            }
        }
        impl HashChain for $name {
            const OUTPUT_SIZE: u16 = $n;
            const BLOCK_SIZE: u16 = 64;
            fn finalize(self) -> ArrayVec<[u8; 32]> {
                ArrayVec::from_array_len(self.0.emit(), $n)
            }
            fn finalize_reset(&mut self) -> ArrayVec<[u8; 32]> {
                let r = self.0.emit();
                self.0 = EndsCore::new();
                ArrayVec::from_array_len(r, $n)
            }
            fn do_actual_hash_chain(&mut self, hc_data: &mut HashChainData, from: usize, to: usize) {
                unsafe { REC_ENDS.chains += 1; }
                if from < to {
                    let d = any_digest();
                    hc_data[23..].copy_from_slice(&d[..$n]);
                }
            }
        }
    };
}
rec_ends!(RecEnds16, 16);
rec_ends!(RecEnds32, 32);
