//! C08 — keys are derived and encoded exactly as hash-sigs does: blob layout and nibble packing.
use crate::models::*;
use hbs_lms::verif_hooks::hss_definitions::HssPublicKey;
use hbs_lms::verif_hooks::hss_key::*;
use hbs_lms::verif_hooks::lms_definitions::LmsPublicKey;
use hbs_lms::{HashChain, HssParameter, LmotsAlgorithm, LmsAlgorithm, Seed};
use tinyvec::ArrayVec;

fn any_w() -> (LmotsAlgorithm, u8) {
    let k: u8 = kani::any();
    kani::assume(k < 4);
    match k { 0 => (LmotsAlgorithm::LmotsW1, 1), 1 => (LmotsAlgorithm::LmotsW2, 2), 2 => (LmotsAlgorithm::LmotsW4, 3), _ => (LmotsAlgorithm::LmotsW8, 4) }
}
fn any_h() -> (LmsAlgorithm, u8) {
    let k: u8 = kani::any();
    kani::assume(k < 5);
    match k { 0 => (LmsAlgorithm::LmsH5, 5), 1 => (LmsAlgorithm::LmsH10, 6), 2 => (LmsAlgorithm::LmsH15, 7), 3 => (LmsAlgorithm::LmsH20, 8), _ => (LmsAlgorithm::LmsH25, 9) }
}

/// blob = be64(counter) || 8 parameter bytes ((h code << 4) | w code, 0xff padding) || seed, and back
fn blob_layout<H: HashChain, const N: usize>(levels: usize) {
    let mut list: ArrayVec<[HssParameter<H>; 8]> = ArrayVec::new();
    let mut want = [0xffu8; 8];
    let mut i = 0;
    while i < levels {
        let (w, wc) = any_w();
        let (h, hc) = any_h();
        list.push(HssParameter::new(w, h));
        want[i] = (hc << 4) | wc;
        i += 1;
    }
    let sb: [u8; 32] = kani::any();
    let mut seed = Seed::<H>::default();
    seed.as_mut_slice().copy_from_slice(&sb[..N]);
    let mut sk = ReferenceImplPrivateKey::<H>::generate(list.as_slice(), &seed).unwrap();
    let fresh = sk.to_binary_representation();
    assert!(fresh.len() == 16 + N, "blob length 8 + 8 + n");
    let mut k = 0;
    while k < 8 { assert!(fresh[k] == 0, "fresh key has counter 0"); k += 1; }
    let c: u64 = kani::any();
    sk.compressed_used_leafs_indexes = CompressedUsedLeafsIndexes::new(c);
    let blob = sk.to_binary_representation();
    assert!(blob[..8] == c.to_be_bytes(), "counter is 8 bytes big-endian");
    let mut k = 0;
    while k < 8 { assert!(blob[8 + k] == want[k], "parameter byte = (height code << 4) | winternitz code, 0xff padding"); k += 1; }
    let mut k = 0;
    while k < N { assert!(blob[16 + k] == sb[k], "seed follows the parameter bytes"); k += 1; }
    // and back
    let re = ReferenceImplPrivateKey::<H>::from_binary_representation(blob.as_slice()).unwrap();
    assert!(re == sk, "from_binary_representation inverts to_binary_representation");
    let back = re.compressed_parameter.to::<H>().unwrap();
    assert!(back.len() == levels, "level count survives the round trip");
    let mut i = 0;
    while i < levels { assert!(back[i] == list[i], "parameter set of every level survives the round trip"); i += 1; }
    kani::cover!(true, "reached");
}
macro_rules! blob {
    ($($name:ident = ($h:ty, $n:expr, $l:expr)),*) => { $( harness! { fn $name() unwind 36 { blob_layout::<$h, $n>($l) }} )* };
}
blob!(c08_blob_n32_l1 = (Havoc32, 32, 1), c08_blob_n32_l2 = (Havoc32, 32, 2), c08_blob_n32_l3 = (Havoc32, 32, 3), c08_blob_n32_l4 = (Havoc32, 32, 4),
      c08_blob_n32_l5 = (Havoc32, 32, 5), c08_blob_n32_l6 = (Havoc32, 32, 6), c08_blob_n32_l7 = (Havoc32, 32, 7), c08_blob_n32_l8 = (Havoc32, 32, 8),
      c08_blob_n24_l2 = (Havoc24, 24, 2), c08_blob_n16_l3 = (Havoc16, 16, 3));

/// wrong blob lengths are refused
harness! { fn c08_blob_length_check() unwind 36 {
    let buf: [u8; 56] = kani::any();
    let len: usize = kani::any();
    kani::assume(len <= 56);
    let r16 = ReferenceImplPrivateKey::<Havoc16>::from_binary_representation(&buf[..len]);
    let r24 = ReferenceImplPrivateKey::<Havoc24>::from_binary_representation(&buf[..len]);
    let r32 = ReferenceImplPrivateKey::<Havoc32>::from_binary_representation(&buf[..len]);
    assert!(r16.is_ok() == (len == 32), "n=16: exactly 32 bytes");
    assert!(r24.is_ok() == (len == 40), "n=24: exactly 40 bytes");
    assert!(r32.is_ok() == (len == 48), "n=32: exactly 48 bytes");
    kani::cover!(len == 48, "48 reachable");
}}

/// HSS public key = u32(L) || u32(lms type) || u32(ots type) || I || root
fn hss_pk_layout<H: HashChain, const N: usize>() {
    let (w, wc) = any_w();
    let (h, hc) = any_h();
    let mut pk: LmsPublicKey<H> = Default::default();
    pk.lmots_parameter = w.construct_parameter::<H>().unwrap();
    pk.lms_parameter = h.construct_parameter::<H>().unwrap();
    pk.lms_tree_identifier = kani::any();
    let d: [u8; 32] = kani::any();
    pk.key = ArrayVec::from_array_len(d, N);
    let level: usize = kani::any();
    kani::assume(level >= 1 && level <= 8);
    let hpk = HssPublicKey::<H> { public_key: pk.clone(), level };
    let b = hpk.to_binary_representation();
    assert!(b.len() == 4 + 24 + N, "HSS public key length 4 + 24 + n");
    assert!(b[..4] == (level as u32).to_be_bytes(), "level count");
    assert!(b[4..8] == (hc as u32).to_be_bytes() && b[8..12] == (wc as u32).to_be_bytes(), "LMS type then LM-OTS type");
    let mut k = 0;
    while k < 16 { assert!(b[12 + k] == pk.lms_tree_identifier[k], "tree identifier"); k += 1; }
    let mut k = 0;
    while k < N { assert!(b[28 + k] == d[k], "root"); k += 1; }
    kani::cover!(level == 8, "8 levels");
}
harness! { fn c08_hss_public_key_layout_n16() unwind 36 { hss_pk_layout::<Havoc16, 16>() }}
harness! { fn c08_hss_public_key_layout_n24() unwind 36 { hss_pk_layout::<Havoc24, 24>() }}
harness! { fn c08_hss_public_key_layout_n32() unwind 36 { hss_pk_layout::<Havoc32, 32>() }}
