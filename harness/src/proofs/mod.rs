//! Proof harnesses, one module per property.
#[cfg(all(verif_check, not(kani)))]
#[allow(unused_imports)]
use crate::kani;

/// Standard harness wrapper: unwinding bound + the two stubs every harness needs
/// (DESIGN.md 1.2 items 1 and 2).
#[cfg(kani)]
macro_rules! harness {
    ($(#[$m:meta])* fn $name:ident() unwind $unwind:literal $body:block) => {
        $(#[$m])*
        #[kani::proof]
        #[kani::unwind($unwind)]
        #[kani::stub(zeroize::optimization_barrier, crate::models::noop_barrier)]
        #[kani::stub(<[u8; 32] as tinyvec::Array>::default, crate::models::fast_default)]
        pub fn $name() $body
    };
}
#[cfg(not(kani))]
macro_rules! harness {
    ($(#[$m:meta])* fn $name:ident() unwind $unwind:literal $body:block) => {
        $(#[$m])*
        pub fn $name() $body
    };
}

/// Harness wrapper with the LMS layer replaced by its contract (crate::contracts): used where the
/// key shape is symbolic and real trees (up to 2^25 leaves) are out of reach.
#[cfg(kani)]
macro_rules! harness_lms_contract {
    ($(#[$m:meta])* fn $name:ident() unwind $unwind:literal $body:block) => {
        $(#[$m])*
        #[kani::proof]
        #[kani::unwind($unwind)]
        #[kani::stub(zeroize::optimization_barrier, crate::models::noop_barrier)]
        #[kani::stub(<[u8; 32] as tinyvec::Array>::default, crate::models::fast_default)]
        #[kani::stub(hbs_lms::verif_hooks::lms::generate_key_pair, crate::contracts::model_generate_key_pair)]
        #[kani::stub(hbs_lms::verif_hooks::lms_signing::LmsSignature::sign, crate::contracts::model_lms_sign)]
        #[kani::stub(hbs_lms::verif_hooks::hss_signing::HssSignature::to_binary_representation, crate::contracts::model_hss_signature_bytes)]
        pub fn $name() $body
    };
}
#[cfg(not(kani))]
macro_rules! harness_lms_contract {
    ($(#[$m:meta])* fn $name:ident() unwind $unwind:literal $body:block) => {
        $(#[$m])*
        pub fn $name() $body
    };
}

/// Harness wrapper for the callback protocol: both HSS-level operations and the signature serialiser
/// replaced by "light" contracts (crate::contracts); everything else in hss_sign / SigningKey is real.
#[cfg(kani)]
macro_rules! harness_protocol {
    ($(#[$m:meta])* fn $name:ident() unwind $unwind:literal $body:block) => {
        $(#[$m])*
        #[kani::proof]
        #[kani::unwind($unwind)]
        #[kani::stub(zeroize::optimization_barrier, crate::models::noop_barrier)]
        #[kani::stub(<[u8; 32] as tinyvec::Array>::default, crate::models::fast_default)]
        #[kani::stub(hbs_lms::verif_hooks::hss_definitions::HssPrivateKey::from, crate::contracts::model_from_light)]
        #[kani::stub(hbs_lms::verif_hooks::hss_signing::HssSignature::sign, crate::contracts::model_hss_sign_light)]
        #[kani::stub(hbs_lms::verif_hooks::hss_signing::HssSignature::to_binary_representation, crate::contracts::model_hss_signature_bytes)]
        pub fn $name() $body
    };
}
#[cfg(not(kani))]
macro_rules! harness_protocol {
    ($(#[$m:meta])* fn $name:ident() unwind $unwind:literal $body:block) => {
        $(#[$m])*
        pub fn $name() $body
    };
}

/// Harness wrapper with one extra stub given as (original, replacement).
#[cfg(kani)]
macro_rules! harness_stub {
    ($(#[$m:meta])* fn $name:ident() unwind $unwind:literal stub($orig:path, $repl:path) $body:block) => {
        $(#[$m])*
        #[kani::proof]
        #[kani::unwind($unwind)]
        #[kani::stub(zeroize::optimization_barrier, crate::models::noop_barrier)]
        #[kani::stub(<[u8; 32] as tinyvec::Array>::default, crate::models::fast_default)]
        #[kani::stub($orig, $repl)]
        pub fn $name() $body
    };
}
#[cfg(not(kani))]
macro_rules! harness_stub {
    ($(#[$m:meta])* fn $name:ident() unwind $unwind:literal stub($orig:path, $repl:path) $body:block) => {
        $(#[$m])*
        pub fn $name() $body
    };
}

pub mod c01;
pub mod c02;
pub mod c04;
pub mod c07;
pub mod c08;
pub mod c08d;
pub mod c14;
pub mod c15;
pub mod c16;
pub mod c06;
pub mod c09;
pub mod c10;
pub mod c12;
#[cfg(verif_levels = "8")]
pub mod c13;

harness! { fn selftest_smoke() unwind 3 {
    let x: u8 = kani::any();
    assert!(x as u16 + 1 > 0);
}}

// Driver self-test: a harness that must fail (exercises the failure / replay plumbing).
harness! { fn selftest_must_fail() unwind 3 {
    let x: u8 = kani::any();
    let key: [u8; 3] = kani::any();
    let r = hbs_lms::verif_hooks::hss_key::ReferenceImplPrivateKey::<crate::models::Havoc16>::from_binary_representation(&key);
    assert!(r.is_err());
    assert!(x != 77, "selftest: x is never 77");
}}
