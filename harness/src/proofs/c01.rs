//! C01 — every released signature verifies (completeness), layer by layer.
use crate::models::*;
use hbs_lms::verif_hooks::hss_aux::MutableExpandedAuxData;
use hbs_lms::verif_hooks::lmots_keygen::*;
use hbs_lms::verif_hooks::lmots_signing::*;
use hbs_lms::verif_hooks::lmots_verify::generate_public_key_candidate;
use hbs_lms::verif_hooks::lms_definitions::*;
use hbs_lms::verif_hooks::lms_signing::*;
use hbs_lms::{HashChain, HssParameter, LmotsAlgorithm, LmsAlgorithm, Seed};
use tinyvec::ArrayVec;

fn alg(w: usize) -> LmotsAlgorithm {
    match w { 1 => LmotsAlgorithm::LmotsW1, 2 => LmotsAlgorithm::LmotsW2, 4 => LmotsAlgorithm::LmotsW4, _ => LmotsAlgorithm::LmotsW8 }
}

/// L1: LM-OTS. candidate(sign(sk, C, m)) == pk(sk) for every hash of the ToyLin family (symbolic
/// salt), seed, I, q, randomizer C and message.
fn ots_roundtrip<H: HashChain, const FLAT: usize>(w: usize) {
    salt_symbolic();
    let n = H::OUTPUT_SIZE as usize;
    let sb: [u8; 32] = kani::any();
    let mut seed = Seed::<H>::default();
    seed.as_mut_slice().copy_from_slice(&sb[..n]);
    let i: [u8; 16] = kani::any();
    let q: u32 = kani::any();
    let par = alg(w).construct_parameter::<H>().unwrap();
    let sk = generate_private_key(i, q.to_be_bytes(), seed, par);
    let pk = generate_public_key(&sk);
    let msg: [u8; 4] = kani::any();
    let mlen: usize = kani::any();
    kani::assume(mlen <= 4);
    let cb: [u8; 32] = kani::any();
    let c: ArrayVec<[u8; 32]> = ArrayVec::from_array_len(cb, n);
    let sig = LmotsSignature::sign(&sk, &c, &msg[..mlen]);
    let p = par.get_num_winternitz_chains() as usize;
    assert!(sig.signature_data.len() == p, "one chain value per Winternitz chain");
    let mut flat = [0u8; FLAT];
    let mut k = 0;
    while k < p {
        flat[k * n..(k + 1) * n].copy_from_slice(sig.signature_data[k].as_slice());
        k += 1;
    }
    let parsed = InMemoryLmotsSignature::<H> {
        signature_randomizer: c.as_slice(),
        signature_data: &flat[..n * p],
        lmots_parameter: par,
    };
    let cand = generate_public_key_candidate(&parsed, &i, q, &msg[..mlen]);
    assert!(cand == pk.key, "the verifier's candidate equals the LM-OTS public key");
    kani::cover!(mlen == 0, "empty message reachable");
}
harness! { fn c01_l1_ots_roundtrip_n16_w8() unwind 36 { ots_roundtrip::<ToyLin16, { 16 * 18 }>(8) }}
harness! { fn c01_l1_ots_roundtrip_n24_w8() unwind 36 { ots_roundtrip::<ToyLin24, { 24 * 26 }>(8) }}
harness! { fn c01_l1_ots_roundtrip_n32_w8() unwind 36 { ots_roundtrip::<ToyLin32, { 32 * 34 }>(8) }}
harness! { fn c01_l1_ots_roundtrip_n16_w4() unwind 38 { ots_roundtrip::<ToyLin16, { 16 * 35 }>(4) }}
harness! { fn c01_l1_ots_roundtrip_n16_w2() unwind 70 { ots_roundtrip::<ToyLin16, { 16 * 68 }>(2) }}
harness! { fn c01_l1_ots_roundtrip_n16_w1() unwind 138 { ots_roundtrip::<ToyLin16, { 16 * 136 }>(1) }}
harness! { fn c01_l1_ots_roundtrip_n24_w4() unwind 54 { ots_roundtrip::<ToyLin24, { 24 * 51 }>(4) }}
harness! { fn c01_l1_ots_roundtrip_n32_w4() unwind 70 { ots_roundtrip::<ToyLin32, { 32 * 67 }>(4) }}

// ---- L2: the signer's authentication path is the sibling rule, for every leaf of tall trees ----
/// contract of `lms::helper::get_tree_element`: node(index) = toy digest of the index (no tree built)
pub fn model_tree_element<H: HashChain>(
    index: usize,
    _private_key: &LmsPrivateKey<H>,
    _aux: &mut Option<MutableExpandedAuxData>,
) -> ArrayVec<[u8; 32]> {
    let d = toy_digest(&[&(index as u64).to_be_bytes()]);
    ArrayVec::from_array_len(d, H::OUTPUT_SIZE as usize)
}
/// contract of `LmotsSignature::sign` for path-only harnesses: an empty LM-OTS signature
pub fn model_ots_sign<H: HashChain>(
    private_key: &hbs_lms::verif_hooks::lmots_definitions::LmotsPrivateKey<H>,
    signature_randomizer: &ArrayVec<[u8; 32]>,
    _message: &[u8],
) -> LmotsSignature<H> {
    let mut s: LmotsSignature<H> = Default::default();
    s.lmots_parameter = private_key.lmots_parameter;
    s.signature_randomizer = *signature_randomizer;
    s
}
/// contract of `lm_ots::keygen::generate_private_key` for path-only harnesses: no chain values
pub fn model_ots_private_key<H: HashChain>(
    lms_tree_identifier: [u8; 16],
    lms_leaf_identifier: [u8; 4],
    _seed: Seed<H>,
    lmots_parameter: hbs_lms::verif_hooks::lmots_parameters::LmotsParameter<H>,
) -> hbs_lms::verif_hooks::lmots_definitions::LmotsPrivateKey<H> {
    hbs_lms::verif_hooks::lmots_definitions::LmotsPrivateKey::new(lms_tree_identifier, lms_leaf_identifier, ArrayVec::new(), lmots_parameter)
}

fn path_rule(hgt: LmsAlgorithm, h: u32) {
    type H = ToyLin16;
    salt_symbolic();
    let q: u32 = kani::any();
    kani::assume(q < (1u32 << h));
    let mut key = LmsPrivateKey::<H>::new(Seed::default(), kani::any(), q,
        LmotsAlgorithm::LmotsW8.construct_parameter::<H>().unwrap(), hgt.construct_parameter::<H>().unwrap());
    let c: ArrayVec<[u8; 32]> = ArrayVec::from_array_len([0u8; 32], 16);
    let sig = LmsSignature::sign(&mut key, &[1u8, 2], &c, &mut None).unwrap();
    assert!(key.used_leafs_index == q + 1, "exactly one leaf consumed");
    assert!(sig.lms_leaf_identifier == q.to_be_bytes(), "signature carries the leaf index that was current");
    assert!(sig.authentication_path.len() == h as usize, "h path nodes");
    let leaf = (1usize << h) + q as usize;
    let mut i = 0u32;
    while i < h {
        let want = toy_digest(&[&(((leaf >> i) ^ 1) as u64).to_be_bytes()]);
        let got = sig.authentication_path[i as usize];
        assert!(got.len() == 16, "node length");
        let mut k = 0;
        while k < 16 { assert!(got[k] == want[k], "path node i is the sibling of the ancestor at height i"); k += 1; }
        i += 1;
    }
    // beyond the last leaf the key refuses
    let mut full = LmsPrivateKey::<H>::new(Seed::default(), [0u8; 16], 1u32 << h,
        LmotsAlgorithm::LmotsW8.construct_parameter::<H>().unwrap(), hgt.construct_parameter::<H>().unwrap());
    assert!(LmsSignature::sign(&mut full, &[1u8], &c, &mut None).is_err(), "an exhausted LMS key refuses to sign");
    kani::cover!(q == (1u32 << h) - 1, "last leaf reachable");
    kani::cover!(q == 0, "first leaf reachable");
}
#[cfg(kani)]
macro_rules! path_h {
    ($name:ident, $alg:expr, $h:expr) => {
        #[kani::proof]
        #[kani::unwind(36)]
        #[kani::stub(zeroize::optimization_barrier, crate::models::noop_barrier)]
        #[kani::stub(<[u8; 32] as tinyvec::Array>::default, crate::models::fast_default)]
        #[kani::stub(hbs_lms::verif_hooks::lms::get_tree_element, model_tree_element)]
        #[kani::stub(hbs_lms::verif_hooks::lmots_signing::LmotsSignature::sign, model_ots_sign)]
        #[kani::stub(hbs_lms::verif_hooks::lmots_keygen::generate_private_key, model_ots_private_key)]
        pub fn $name() { path_rule($alg, $h) }
    };
}
#[cfg(not(kani))]
macro_rules! path_h {
    ($name:ident, $alg:expr, $h:expr) => {
        pub fn $name() { path_rule($alg, $h) }
    };
}
path_h!(c01_l2_auth_path_rule_h5, LmsAlgorithm::LmsH5, 5);
path_h!(c01_l2_auth_path_rule_h10, LmsAlgorithm::LmsH10, 10);
path_h!(c01_l2_auth_path_rule_h15, LmsAlgorithm::LmsH15, 15);
path_h!(c01_l2_auth_path_rule_h20, LmsAlgorithm::LmsH20, 20);
path_h!(c01_l2_auth_path_rule_h25, LmsAlgorithm::LmsH25, 25);

// ---- L2: the verifier's Merkle walk equals an independent RFC 8554 Algorithm 6a computation ---------
// Deterministic toy hash family (symbolic salt); the LM-OTS candidate is a contract returning a
// symbolic value Kc, so only the LMS layer (leaf / interior node hashing, node numbering, left/right
// order by parity) is under test - for every leaf index and every path.
pub static mut KC: [u8; 32] = [0u8; 32];
pub fn model_ots_candidate<H: HashChain>(
    _signature: &InMemoryLmotsSignature<'_, H>,
    _lms_tree_identifier: &[u8],
    _lms_leaf_identifier: u32,
    _message: &[u8],
) -> ArrayVec<[u8; 32]> {
    ArrayVec::from_array_len(unsafe { KC }, H::OUTPUT_SIZE as usize)
}

fn verify_walk(hgt: LmsAlgorithm, h: u32, hcode: u32, q: u32) {
    use hbs_lms::verif_hooks::lms_definitions::InMemoryLmsPublicKey;
    type H = Toy16;
    const N: usize = 16;
    salt_symbolic();
    unsafe { KC = kani::any(); }
    let kc = unsafe { KC };
    // the leaf index is concrete per instance: with a symbolic index the library selects the left / right
    // operand through a symbolic slice pointer and CBMC's propositional encoding exceeded 65 GB
    let i: [u8; 16] = kani::any();
    let path: [u8; N * 5] = kani::any();
    let c: [u8; N] = kani::any();
    let y: [u8; N * 18] = kani::any();
    let sig = InMemoryLmsSignature::<H> {
        lms_leaf_identifier: q,
        lmots_signature: InMemoryLmotsSignature { signature_randomizer: &c, signature_data: &y, lmots_parameter: LmotsAlgorithm::LmotsW8.construct_parameter::<H>().unwrap() },
        authentication_path: &path[..N * h as usize],
        lms_parameter: hgt.construct_parameter::<H>().unwrap(),
    };
    // reference root (RFC 8554 Algorithm 6a, steps 3-4)
    let mut node = (1u32 << h) + q;
    let mut tmp = toy_digest(&[&i, &node.to_be_bytes(), &[0x82, 0x82], &kc[..N]]);
    let mut k = 0usize;
    while k < h as usize {
        let sib = &path[k * N..(k + 1) * N];
        let parent = node / 2;
        tmp = if node % 2 == 1 {
            toy_digest(&[&i, &parent.to_be_bytes(), &[0x83, 0x83], sib, &tmp[..N]])
        } else {
            toy_digest(&[&i, &parent.to_be_bytes(), &[0x83, 0x83], &tmp[..N], sib])
        };
        node = parent;
        k += 1;
    }
    // public key carrying exactly that root, and one with a single flipped bit
    let mut pkb = [0u8; 24 + N];
    pkb[..4].copy_from_slice(&hcode.to_be_bytes());
    pkb[4..8].copy_from_slice(&4u32.to_be_bytes());
    pkb[8..24].copy_from_slice(&i);
    pkb[24..].copy_from_slice(&tmp[..N]);
    let msg: [u8; 2] = kani::any();
    {
        let pk = InMemoryLmsPublicKey::<H>::new(&pkb).unwrap();
        assert!(hbs_lms::verif_hooks::lms_verify::verify(&sig, &pk, &msg).is_ok(), "the verifier's walk reaches the RFC root: leaf = H(I|u32(2^h+q)|0x8282|Kc), parents = H(I|u32(node/2)|0x8383|left|right) by parity");
    }
    let bit: usize = kani::any();
    kani::assume(bit < 8 * N);
    pkb[24 + bit / 8] ^= 1 << (bit % 8);
    let pk2 = InMemoryLmsPublicKey::<H>::new(&pkb).unwrap();
    assert!(hbs_lms::verif_hooks::lms_verify::verify(&sig, &pk2, &msg).is_err(), "any other root is rejected");
    kani::cover!(true, "reached");
}
#[cfg(kani)]
macro_rules! walk_h {
    ($name:ident, $alg:expr, $h:expr, $code:expr, $q:expr) => {
        #[kani::proof]
        #[kani::unwind(18)]
        #[kani::stub(zeroize::optimization_barrier, crate::models::noop_barrier)]
        #[kani::stub(<[u8; 32] as tinyvec::Array>::default, crate::models::fast_default)]
        #[kani::stub(hbs_lms::verif_hooks::lmots_verify::generate_public_key_candidate, model_ots_candidate)]
        pub fn $name() { verify_walk($alg, $h, $code, $q) }
    };
}
#[cfg(not(kani))]
macro_rules! walk_h {
    ($name:ident, $alg:expr, $h:expr, $code:expr, $q:expr) => {
        pub fn $name() { verify_walk($alg, $h, $code, $q) }
    };
}
walk_h!(c01_l2_verify_walk_h5_q0, LmsAlgorithm::LmsH5, 5, 5, 0);
walk_h!(c01_l2_verify_walk_h5_q31, LmsAlgorithm::LmsH5, 5, 5, 31);
walk_h!(c01_l2_verify_walk_h5_q21, LmsAlgorithm::LmsH5, 5, 5, 21);
walk_h!(c01_l2_verify_walk_h5_q10, LmsAlgorithm::LmsH5, 5, 5, 10);
walk_h!(c01_l2_verify_walk_h2_q1, LmsAlgorithm::LmsH2, 2, 1, 1);
walk_h!(c01_l2_verify_walk_h2_q2, LmsAlgorithm::LmsH2, 2, 1, 2);
