//! C01 — every released signature verifies (completeness), layer by layer.
use crate::models::*;
use hbs_lms::verif_hooks::hss_aux::MutableExpandedAuxData;
use hbs_lms::verif_hooks::lmots_keygen::*;
use hbs_lms::verif_hooks::lmots_signing::*;
use hbs_lms::verif_hooks::lmots_verify::generate_public_key_candidate;
use hbs_lms::verif_hooks::lms_definitions::*;
use hbs_lms::verif_hooks::lms_signing::*;
use hbs_lms::{HashChain, HssParameter, LmotsAlgorithm, LmsAlgorithm, Seed};
use tinyvec::ArrayVec;

fn alg(w: usize) -> LmotsAlgorithm {
    match w { 1 => LmotsAlgorithm::LmotsW1, 2 => LmotsAlgorithm::LmotsW2, 4 => LmotsAlgorithm::LmotsW4, _ => LmotsAlgorithm::LmotsW8 }
}

/// L1: LM-OTS. candidate(sign(sk, C, m)) == pk(sk) for every hash of the ToyLin family (symbolic
/// salt), seed, I, q, randomizer C and message.
fn ots_roundtrip<H: HashChain, const FLAT: usize>(w: usize) {
    salt_symbolic();
    let n = H::OUTPUT_SIZE as usize;
    let sb: [u8; 32] = kani::any();
    let mut seed = Seed::<H>::default();
    seed.as_mut_slice().copy_from_slice(&sb[..n]);
    let i: [u8; 16] = kani::any();
    let q: u32 = kani::any();
    let par = alg(w).construct_parameter::<H>().unwrap();
    let sk = generate_private_key(i, q.to_be_bytes(), seed, par);
    let pk = generate_public_key(&sk);
    let msg: [u8; 4] = kani::any();
    let mlen: usize = kani::any();
    kani::assume(mlen <= 4);
    let cb: [u8; 32] = kani::any();
    let c: ArrayVec<[u8; 32]> = ArrayVec::from_array_len(cb, n);
    let sig = LmotsSignature::sign(&sk, &c, &msg[..mlen]);
    let p = par.get_num_winternitz_chains() as usize;
    assert!(sig.signature_data.len() == p, "one chain value per Winternitz chain");
    let mut flat = [0u8; FLAT];
    let mut k = 0;
    while k < p {
        flat[k * n..(k + 1) * n].copy_from_slice(sig.signature_data[k].as_slice());
        k += 1;
    }
    let parsed = InMemoryLmotsSignature::<H> {
        signature_randomizer: c.as_slice(),
        signature_data: &flat[..n * p],
        lmots_parameter: par,
    };
    let cand = generate_public_key_candidate(&parsed, &i, q, &msg[..mlen]);
    assert!(cand == pk.key, "the verifier's candidate equals the LM-OTS public key");
    kani::cover!(mlen == 0, "empty message reachable");
}
harness! { fn c01_l1_ots_roundtrip_n16_w8() unwind 36 { ots_roundtrip::<ToyLin16, { 16 * 18 }>(8) }}
harness! { fn c01_l1_ots_roundtrip_n24_w8() unwind 36 { ots_roundtrip::<ToyLin24, { 24 * 26 }>(8) }}
harness! { fn c01_l1_ots_roundtrip_n32_w8() unwind 36 { ots_roundtrip::<ToyLin32, { 32 * 34 }>(8) }}
harness! { fn c01_l1_ots_roundtrip_n16_w4() unwind 38 { ots_roundtrip::<ToyLin16, { 16 * 35 }>(4) }}
harness! { fn c01_l1_ots_roundtrip_n16_w2() unwind 70 { ots_roundtrip::<ToyLin16, { 16 * 68 }>(2) }}
harness! { fn c01_l1_ots_roundtrip_n16_w1() unwind 138 { ots_roundtrip::<ToyLin16, { 16 * 136 }>(1) }}
harness! { fn c01_l1_ots_roundtrip_n24_w4() unwind 54 { ots_roundtrip::<ToyLin24, { 24 * 51 }>(4) }}
harness! { fn c01_l1_ots_roundtrip_n32_w4() unwind 70 { ots_roundtrip::<ToyLin32, { 32 * 67 }>(4) }}

// ---- L2: the signer's authentication path is the sibling rule, for every leaf of tall trees ----
/// contract of `lms::helper::get_tree_element`: node(index) = toy digest of the index (no tree built)
pub fn model_tree_element<H: HashChain>(
    index: usize,
    _private_key: &LmsPrivateKey<H>,
    _aux: &mut Option<MutableExpandedAuxData>,
) -> ArrayVec<[u8; 32]> {
    let d = toy_digest(&[&(index as u64).to_be_bytes()]);
    ArrayVec::from_array_len(d, H::OUTPUT_SIZE as usize)
}
/// contract of `LmotsSignature::sign` for path-only harnesses: an empty LM-OTS signature
pub fn model_ots_sign<H: HashChain>(
    private_key: &hbs_lms::verif_hooks::lmots_definitions::LmotsPrivateKey<H>,
    signature_randomizer: &ArrayVec<[u8; 32]>,
    _message: &[u8],
) -> LmotsSignature<H> {
    let mut s: LmotsSignature<H> = Default::default();
    s.lmots_parameter = private_key.lmots_parameter;
    s.signature_randomizer = *signature_randomizer;
    s
}
/// contract of `lm_ots::keygen::generate_private_key` for path-only harnesses: no chain values
pub fn model_ots_private_key<H: HashChain>(
    lms_tree_identifier: [u8; 16],
    lms_leaf_identifier: [u8; 4],
    _seed: Seed<H>,
    lmots_parameter: hbs_lms::verif_hooks::lmots_parameters::LmotsParameter<H>,
) -> hbs_lms::verif_hooks::lmots_definitions::LmotsPrivateKey<H> {
    hbs_lms::verif_hooks::lmots_definitions::LmotsPrivateKey::new(lms_tree_identifier, lms_leaf_identifier, ArrayVec::new(), lmots_parameter)
}

fn path_rule(hgt: LmsAlgorithm, h: u32) {
    type H = ToyLin16;
    salt_symbolic();
    let q: u32 = kani::any();
    kani::assume(q < (1u32 << h));
    let mut key = LmsPrivateKey::<H>::new(Seed::default(), kani::any(), q,
        LmotsAlgorithm::LmotsW8.construct_parameter::<H>().unwrap(), hgt.construct_parameter::<H>().unwrap());
    let c: ArrayVec<[u8; 32]> = ArrayVec::from_array_len([0u8; 32], 16);
    let sig = LmsSignature::sign(&mut key, &[1u8, 2], &c, &mut None).unwrap();
    assert!(key.used_leafs_index == q + 1, "exactly one leaf consumed");
    assert!(sig.lms_leaf_identifier == q.to_be_bytes(), "signature carries the leaf index that was current");
    assert!(sig.authentication_path.len() == h as usize, "h path nodes");
    let leaf = (1usize << h) + q as usize;
    let mut i = 0u32;
    while i < h {
        let want = toy_digest(&[&(((leaf >> i) ^ 1) as u64).to_be_bytes()]);
        let got = sig.authentication_path[i as usize];
        assert!(got.len() == 16, "node length");
        let mut k = 0;
        while k < 16 { assert!(got[k] == want[k], "path node i is the sibling of the ancestor at height i"); k += 1; }
        i += 1;
    }
    // beyond the last leaf the key refuses
    let mut full = LmsPrivateKey::<H>::new(Seed::default(), [0u8; 16], 1u32 << h,
        LmotsAlgorithm::LmotsW8.construct_parameter::<H>().unwrap(), hgt.construct_parameter::<H>().unwrap());
    assert!(LmsSignature::sign(&mut full, &[1u8], &c, &mut None).is_err(), "an exhausted LMS key refuses to sign");
    kani::cover!(q == (1u32 << h) - 1, "last leaf reachable");
    kani::cover!(q == 0, "first leaf reachable");
}
#[cfg(kani)]
macro_rules! path_h {
    ($name:ident, $alg:expr, $h:expr) => {
        #[kani::proof]
        #[kani::unwind(36)]
        #[kani::stub(zeroize::optimization_barrier, crate::models::noop_barrier)]
        #[kani::stub(<[u8; 32] as tinyvec::Array>::default, crate::models::fast_default)]
        #[kani::stub(hbs_lms::verif_hooks::lms::get_tree_element, model_tree_element)]
        #[kani::stub(hbs_lms::verif_hooks::lmots_signing::LmotsSignature::sign, model_ots_sign)]
        #[kani::stub(hbs_lms::verif_hooks::lmots_keygen::generate_private_key, model_ots_private_key)]
        pub fn $name() { path_rule($alg, $h) }
    };
}
#[cfg(not(kani))]
macro_rules! path_h {
    ($name:ident, $alg:expr, $h:expr) => {
        pub fn $name() { path_rule($alg, $h) }
    };
}
path_h!(c01_l2_auth_path_rule_h5, LmsAlgorithm::LmsH5, 5);
path_h!(c01_l2_auth_path_rule_h10, LmsAlgorithm::LmsH10, 10);
path_h!(c01_l2_auth_path_rule_h15, LmsAlgorithm::LmsH15, 15);
path_h!(c01_l2_auth_path_rule_h20, LmsAlgorithm::LmsH20, 20);
path_h!(c01_l2_auth_path_rule_h25, LmsAlgorithm::LmsH25, 25);
