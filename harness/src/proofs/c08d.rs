//! C08 / C07 / C03 — *which bytes are hashed, in which layout*: derivation and signing transcripts
//! under the recording hashers. Digests come from a symbolic tape, so every equality established
//! here holds for every hash function.
use crate::models::*;
use crate::reference::{appendix_b, rfc_coef};
use hbs_lms::verif_hooks::hss_key::*;
use hbs_lms::verif_hooks::lmots_keygen::*;
use hbs_lms::verif_hooks::lmots_signing::*;
use hbs_lms::verif_hooks::lmots_verify::generate_public_key_candidate;
use hbs_lms::{HashChain, HashChainData, HssParameter, LmotsAlgorithm, LmsAlgorithm, Seed};
use tinyvec::ArrayVec;

fn q(k: usize) -> RecQuery { unsafe { REC.q[k] } }
fn nq() -> usize { unsafe { REC.nq } }
fn tape(k: usize) -> [u8; 32] { unsafe { REC.tape[k] } }
fn ok() -> bool { unsafe { !REC.overflow } }

fn eq(a: &[u8], b: &[u8]) -> bool {
    if a.len() != b.len() { return false; }
    let mut i = 0;
    let mut r = true;
    while i < a.len() { if a[i] != b[i] { r = false; } i += 1; }
    r
}
fn zero(a: &[u8]) -> bool {
    let mut i = 0;
    let mut r = true;
    while i < a.len() { if a[i] != 0 { r = false; } i += 1; }
    r
}

// ---- top-level seed / identifier (hash-sigs hss_generate_root_seed_I_value) --------------------
fn root_seed<H: HashChain>() {
    rec_reset_symbolic();
    let n = H::OUTPUT_SIZE as usize;
    // the caller's seed container always holds 32 bytes; only the first n are the seed
    let raw: [u8; 32] = kani::any();
    let seed = Seed::<H>::from(raw);
    let params = [HssParameter::<H>::new(LmotsAlgorithm::LmotsW8, LmsAlgorithm::LmsH5)];
    let sk = ReferenceImplPrivateKey::<H>::generate(&params, &seed).unwrap();
    let r = sk.generate_root_seed_and_lms_tree_identifier();
    assert!(ok() && nq() == 3, "exactly three digests");
    let (a, b, c) = (q(0), q(1), q(2));
    assert!(a.len == 55 && b.len == 55 && c.len == 55, "55-byte pre-image (TOPSEED_LEN)");
    assert!(zero(&a.head[..20]) && a.head[20] == 0xfe && a.head[21] == 0xfe && a.head[22] == 0, "I = 0, q = 0, D_TOPSEED, which = 0");
    assert!(eq(&a.head[23..23 + n], &raw[..n]) && zero(&a.head[23 + n..55]), "master seed at offset 23, nothing after its n bytes");
    let t0 = tape(0);
    assert!(zero(&b.head[..20]) && b.head[20] == 0xfe && b.head[21] == 0xfe && b.head[22] == 1, "which = 1");
    assert!(eq(&b.head[23..23 + n], &t0[..n]) && zero(&b.head[23 + n..55]), "second pre-image carries the first digest in the seed position");
    assert!(zero(&c.head[..20]) && c.head[20] == 0xfe && c.head[21] == 0xfe && c.head[22] == 2, "which = 2");
    assert!(eq(&c.head[23..23 + n], &t0[..n]) && zero(&c.head[23 + n..55]), "third pre-image carries the first digest too");
    let (t1, t2) = (tape(1), tape(2));
    assert!(eq(r.seed.as_slice(), &t1[..n]), "tree seed = digest with which = 1");
    assert!(eq(&r.lms_tree_identifier, &t2[..16]), "tree identifier = first 16 bytes of the digest with which = 2");
    kani::cover!(true, "reached");
}
harness! { fn c08_root_seed_derivation_n16() unwind 70 { root_seed::<Rec16>() }}
harness! { fn c08_root_seed_derivation_n24() unwind 70 { root_seed::<Rec24>() }}
harness! { fn c08_root_seed_derivation_n32() unwind 70 { root_seed::<Rec32>() }}

fn any_seed_i<H: HashChain>() -> (SeedAndLmsTreeIdentifier<H>, [u8; 32], [u8; 16]) {
    let raw: [u8; 32] = kani::any();
    let i: [u8; 16] = kani::any();
    (SeedAndLmsTreeIdentifier::new(&Seed::<H>::from(raw), &i), raw, i)
}
/// `len` = 55 for SeedDerive (hash-sigs hashes its fixed PRNG_LEN buffer; shorter seeds leave a zero
/// tail) and 23 + n for the LM-OTS chain start values (hashed piecewise, no padding)
fn prng_block(x: &RecQuery, i: &[u8; 16], qq: u32, j: u16, seed: &[u8], n: usize, len: usize) -> bool {
    x.kind == 0 && x.len == len && eq(&x.head[..16], i) && eq(&x.head[16..20], &qq.to_be_bytes())
        && eq(&x.head[20..22], &j.to_be_bytes()) && x.head[22] == 0xff && eq(&x.head[23..23 + n], &seed[..n])
        && zero(&x.head[23 + n..len])
}

// ---- child seed / identifier and per-leaf randomizer ---------------------------------------------
fn child_seed<H: HashChain>() {
    rec_reset_symbolic();
    let n = H::OUTPUT_SIZE as usize;
    let (parent, raw, i) = any_seed_i::<H>();
    let leaf: u32 = kani::any();
    let r = generate_child_seed_and_lms_tree_identifier::<H>(&parent, &leaf);
    assert!(ok() && nq() == 2, "two digests");
    assert!(prng_block(&q(0), &i, leaf, 0xfffe, &raw, n, 55), "child seed pre-image: parent I | parent leaf | 0xfffe | 0xff | parent seed, zero padded to 55 bytes");
    assert!(prng_block(&q(1), &i, leaf, 0xffff, &raw, n, 55), "child identifier pre-image: parent I | parent leaf | 0xffff | 0xff | parent seed");
    assert!(eq(r.seed.as_slice(), &tape(0)[..n]) && eq(&r.lms_tree_identifier, &tape(1)[..16]), "child seed / identifier are those digests");
    // randomizer
    rec_reset_symbolic();
    let c = generate_signature_randomizer::<H>(&parent, &leaf);
    assert!(ok() && nq() == 1 && prng_block(&q(0), &i, leaf, 0xfffd, &raw, n, 55), "randomizer pre-image: I | leaf | 0xfffd | 0xff | seed");
    assert!(eq(c.as_slice(), &tape(0)[..n]), "randomizer C is that digest");
    kani::cover!(true, "reached");
}
harness! { fn c08_child_seed_and_randomizer_n16() unwind 70 { child_seed::<Rec16>() }}
harness! { fn c08_child_seed_and_randomizer_n24() unwind 70 { child_seed::<Rec24>() }}
harness! { fn c08_child_seed_and_randomizer_n32() unwind 70 { child_seed::<Rec32>() }}

// ---- LM-OTS private key: x_q[i] = H(I | q | u16(i) | 0xff | seed) --------------------------------
fn ots_private<H: HashChain>(w: LmotsAlgorithm, p: usize) {
    rec_reset_symbolic();
    let n = H::OUTPUT_SIZE as usize;
    let raw: [u8; 32] = kani::any();
    let i: [u8; 16] = kani::any();
    let leaf: u32 = kani::any();
    let par = w.construct_parameter::<H>().unwrap();
    let sk = generate_private_key(i, leaf.to_be_bytes(), Seed::<H>::from(raw), par);
    assert!(ok() && nq() == p, "one digest per chain");
    assert!(sk.key.as_slice().len() == p, "p chain start values");
    let mut k = 0;
    while k < p {
        assert!(prng_block(&q(k), &i, leaf, k as u16, &raw, n, 23 + n), "x_q[i] pre-image: I | q | u16(i) | 0xff | seed");
        assert!(eq(sk.key.as_slice()[k].as_slice(), &tape(k)[..n]), "x_q[i] is the i-th digest");
        k += 1;
    }
    assert!(sk.lms_tree_identifier == i && sk.lms_leaf_identifier == leaf.to_be_bytes(), "key carries I and q");
    kani::cover!(true, "reached");
}
harness! { fn c08_ots_private_key_n16_w8() unwind 70 { ots_private::<Rec16>(LmotsAlgorithm::LmotsW8, 18) }}
harness! { fn c08_ots_private_key_n24_w8() unwind 70 { ots_private::<Rec24>(LmotsAlgorithm::LmotsW8, 26) }}
harness! { fn c08_ots_private_key_n32_w8() unwind 70 { ots_private::<Rec32>(LmotsAlgorithm::LmotsW8, 34) }}
harness! { fn c08_ots_private_key_n16_w4() unwind 70 { ots_private::<Rec16>(LmotsAlgorithm::LmotsW4, 35) }}

/// the 265-chain parameter set (n = 32, W1): the layout of every query is checked on the fly
harness! { fn c08_ots_private_key_n32_w1_layout() unwind 270 {
    type H = Rec32;
    let raw: [u8; 32] = kani::any();
    let i: [u8; 16] = kani::any();
    let leaf: u32 = kani::any();
    unsafe {
        REC_EXPECT.active = true; REC_EXPECT.i = i; REC_EXPECT.q = leaf.to_be_bytes(); REC_EXPECT.seed = raw; REC_EXPECT.n = 32; REC_EXPECT.ok = true; REC_EXPECT.count = 0;
    }
    let par = LmotsAlgorithm::LmotsW1.construct_parameter::<H>().unwrap();
    let sk = generate_private_key(i, leaf.to_be_bytes(), Seed::<H>::from(raw), par);
    unsafe {
        assert!(REC_EXPECT.count == 265, "one digest per chain (p = 265)");
        assert!(REC_EXPECT.ok, "every x_q[i] pre-image is I | q | u16(i) | 0xff | seed, for all 265 chain indices");
        REC_EXPECT.active = false;
    }
    assert!(sk.key.as_slice().len() == 265, "265 chain start values");
    kani::cover!(true, "reached");
}}

// ---- LM-OTS public key: K = H(I | q | 0x8080 | y_0 .. y_{p-1}), y_i = chain_i(x_i, 0 -> 2^w-1) ---
fn chain_rec(x: &RecQuery, i: &[u8; 16], leaf: u32, id: u16, start: &[u8], from: usize, to: usize, n: usize) -> bool {
    x.kind == 1 && x.len == 23 + n && eq(&x.head[..16], i) && eq(&x.head[16..20], &leaf.to_be_bytes())
        && eq(&x.head[20..22], &id.to_be_bytes()) && eq(&x.head[23..23 + n], start) && x.from == from && x.to == to
}
fn ots_public<H: HashChain, const YLEN: usize>(w: LmotsAlgorithm, wbits: usize, p: usize) {
    salt_symbolic();
    let n = H::OUTPUT_SIZE as usize;
    let i: [u8; 16] = kani::any();
    let leaf: u32 = kani::any();
    let par = w.construct_parameter::<H>().unwrap();
    // arbitrary chain start values
    let mut key: ArrayVec<[ArrayVec<[u8; 32]>; hbs_lms::verif_hooks::constants::MAX_NUM_WINTERNITZ_CHAINS]> = ArrayVec::new();
    let mut k = 0;
    while k < p { let d: [u8; 32] = kani::any(); key.push(ArrayVec::from_array_len(d, n)); k += 1; }
    let sk = hbs_lms::verif_hooks::lmots_definitions::LmotsPrivateKey::<H>::new(i, leaf.to_be_bytes(), key, par);
    rec_reset_symbolic();
    let pk = generate_public_key(&sk);
    assert!(ok() && nq() == p + 1, "p chains and one final digest");
    let mut ys = [0u8; YLEN];
    let mut k = 0;
    while k < p {
        assert!(chain_rec(&q(k), &i, leaf, k as u16, sk.key.as_slice()[k].as_slice(), 0, (1 << wbits) - 1, n), "chain i: I | q | u16(i), from x_i, 0 -> 2^w - 1");
        ys[k * n..(k + 1) * n].copy_from_slice(&tape(k)[..n]);
        k += 1;
    }
    let f = q(p);
    assert!(f.kind == 0 && f.len == 22 + p * n, "final pre-image length 22 + p n");
    assert!(eq(&f.head[..16], &i) && eq(&f.head[16..20], &leaf.to_be_bytes()) && f.head[20] == 0x80 && f.head[21] == 0x80, "I | q | D_PBLC");
    assert!(eq(&f.fp, &rec_fp(&[&i, &leaf.to_be_bytes(), &[0x80, 0x80], &ys[..p * n]])), "followed by y_0 .. y_(p-1) in order");
    assert!(eq(pk.key.as_slice(), &tape(p)[..n]), "K is that digest");
    kani::cover!(true, "reached");
}
harness! { fn c08_ots_public_key_n16_w8() unwind 70 { ots_public::<RecSum16, { 16 * 18 }>(LmotsAlgorithm::LmotsW8, 8, 18) }}
harness! { fn c08_ots_public_key_n32_w8() unwind 70 { ots_public::<RecSum32, { 32 * 34 }>(LmotsAlgorithm::LmotsW8, 8, 34) }}
harness! { fn c08_ots_public_key_n16_w4() unwind 70 { ots_public::<RecSum16, { 16 * 35 }>(LmotsAlgorithm::LmotsW4, 4, 35) }}

// ---- LM-OTS signing (RFC 8554 Alg. 3) and the verifier's candidate (Alg. 4b) ----------------------
/// reference Q || Cksm(Q) with the Appendix-B shift
fn ref_q_cksm(t0: &[u8; 32], n: usize, wbits: usize, ls: usize) -> [u8; 34] {
    let mut qc = [0u8; 34];
    qc[..n].copy_from_slice(&t0[..n]);
    let mut sum: u32 = 0;
    let mut d = 0;
    while d < 8 * n / wbits { sum += ((1u32 << wbits) - 1) - rfc_coef(&qc, d, wbits); d += 1; }
    let ck = (sum << ls) as u16;
    qc[n] = (ck >> 8) as u8;
    qc[n + 1] = ck as u8;
    qc
}

/// signer side (RFC 8554 Algorithm 3)
/// The message digest Q (first tape entry) is concrete per harness instance: with symbolic digits
/// a_i CBMC crashed / ran out of memory on the smallest instance. Two digests with pairwise distinct
/// digit values per position (a byte ramp and its complement) are used; everything else is symbolic.
fn pin_q(pattern: u8) {
    let mut t = [0u8; 32];
    let mut k = 0;
    while k < 32 { t[k] = if pattern == 0 { (k as u8).wrapping_mul(37).wrapping_add(11) } else { !((k as u8).wrapping_mul(37).wrapping_add(11)) }; k += 1; }
    unsafe { REC.tape[0] = t; }
}

fn ots_sign_transcript<H: HashChain>(w: LmotsAlgorithm, wbits: usize, p: usize, pattern: u8) {
    let n = H::OUTPUT_SIZE as usize;
    let (_u, _v, ls, p_rfc) = appendix_b(n, wbits);
    assert!(p == p_rfc, "instance uses the Appendix-B chain count");
    let i: [u8; 16] = kani::any();
    let leaf: u32 = kani::any();
    let par = w.construct_parameter::<H>().unwrap();
    let mut key: ArrayVec<[ArrayVec<[u8; 32]>; hbs_lms::verif_hooks::constants::MAX_NUM_WINTERNITZ_CHAINS]> = ArrayVec::new();
    let mut k = 0;
    while k < p { let d: [u8; 32] = kani::any(); key.push(ArrayVec::from_array_len(d, n)); k += 1; }
    let sk = hbs_lms::verif_hooks::lmots_definitions::LmotsPrivateKey::<H>::new(i, leaf.to_be_bytes(), key, par);
    let cb: [u8; 32] = kani::any();
    let c: ArrayVec<[u8; 32]> = ArrayVec::from_array_len(cb, n);
    let msg: [u8; 5] = kani::any();
    let mlen: usize = kani::any();
    kani::assume(mlen <= 5);
    rec_reset_symbolic();
    pin_q(pattern);
    let sig = LmotsSignature::sign(&sk, &c, &msg[..mlen]);
    assert!(ok() && nq() == p + 1, "one message digest and p chains");
    let m = q(0);
    assert!(m.kind == 0 && m.len == 22 + n + mlen, "Q pre-image length");
    assert!(eq(&m.head[..16], &i) && eq(&m.head[16..20], &leaf.to_be_bytes()) && m.head[20] == 0x81 && m.head[21] == 0x81, "I | q | D_MESG");
    assert!(eq(&m.head[22..22 + n], &cb[..n]) && eq(&m.head[22 + n..22 + n + mlen], &msg[..mlen]), "then C, then the message");
    let qc = ref_q_cksm(&tape(0), n, wbits, ls);
    assert!(eq(sig.signature_randomizer.as_slice(), &cb[..n]), "signature carries C");
    assert!(sig.signature_data.len() == p, "p chain values");
    let mut k = 0;
    while k < p {
        let a = rfc_coef(&qc, k, wbits) as usize;
        assert!(chain_rec(&q(1 + k), &i, leaf, k as u16, sk.key.as_slice()[k].as_slice(), 0, a, n), "chain i iterated a_i = coef(Q || Cksm(Q), i, w) times from x_i");
        let t = tape(1 + k);
        let want: &[u8] = if a == 0 { sk.key.as_slice()[k].as_slice() } else { &t[..n] };
        assert!(eq(sig.signature_data[k].as_slice(), want), "y_i is the end of chain i");
        k += 1;
    }
    kani::cover!(mlen == 5, "longest message");
}
harness! { fn c07_ots_sign_transcript_n16_w8() unwind 70 { ots_sign_transcript::<RecSum16>(LmotsAlgorithm::LmotsW8, 8, 18, 0) }}
harness! { fn c07_ots_sign_transcript_n16_w8_q2() unwind 70 { ots_sign_transcript::<RecSum16>(LmotsAlgorithm::LmotsW8, 8, 18, 1) }}
harness! { fn c07_ots_sign_transcript_n16_w4() unwind 70 { ots_sign_transcript::<RecSum16>(LmotsAlgorithm::LmotsW4, 4, 35, 0) }}
harness! { fn c07_ots_sign_transcript_n16_w4_q2() unwind 70 { ots_sign_transcript::<RecSum16>(LmotsAlgorithm::LmotsW4, 4, 35, 1) }}
harness! { fn c07_ots_sign_transcript_n32_w8() unwind 70 { ots_sign_transcript::<RecSum32>(LmotsAlgorithm::LmotsW8, 8, 34, 0) }}
harness! { fn c07_ots_sign_transcript_n32_w8_q2() unwind 70 { ots_sign_transcript::<RecSum32>(LmotsAlgorithm::LmotsW8, 8, 34, 1) }}

/// verifier side (RFC 8554 Algorithm 4b) on an arbitrary parsed LM-OTS signature
fn ots_candidate_transcript<H: HashChain, const YLEN: usize>(w: LmotsAlgorithm, wbits: usize, p: usize, pattern: u8) {
    salt_symbolic();
    let n = H::OUTPUT_SIZE as usize;
    let (_u, _v, ls, _p) = appendix_b(n, wbits);
    let i: [u8; 16] = kani::any();
    let leaf: u32 = kani::any();
    let par = w.construct_parameter::<H>().unwrap();
    let cb: [u8; 32] = kani::any();
    let flat: [u8; YLEN] = kani::any();
    let msg: [u8; 5] = kani::any();
    let mlen: usize = kani::any();
    kani::assume(mlen <= 5);
    let parsed = InMemoryLmotsSignature::<H> { signature_randomizer: &cb[..n], signature_data: &flat[..n * p], lmots_parameter: par };
    rec_reset_symbolic();
    pin_q(pattern);
    let cand = generate_public_key_candidate(&parsed, &i, leaf, &msg[..mlen]);
    assert!(ok() && nq() == p + 2, "message digest, p chains, final digest");
    let m = q(0);
    assert!(m.kind == 0 && m.len == 22 + n + mlen, "Q pre-image length");
    assert!(eq(&m.head[..16], &i) && eq(&m.head[16..20], &leaf.to_be_bytes()) && m.head[20] == 0x81 && m.head[21] == 0x81, "I | q | D_MESG");
    assert!(eq(&m.head[22..22 + n], &cb[..n]) && eq(&m.head[22 + n..22 + n + mlen], &msg[..mlen]), "then C, then the message");
    let qc = ref_q_cksm(&tape(0), n, wbits, ls);
    let mut zs = [0u8; YLEN];
    let mut k = 0;
    while k < p {
        let a = rfc_coef(&qc, k, wbits) as usize;
        assert!(chain_rec(&q(1 + k), &i, leaf, k as u16, &flat[k * n..(k + 1) * n], a, (1 << wbits) - 1, n), "verifier continues chain i from a_i to 2^w - 1 starting at y_i");
        let t = tape(1 + k);
        let z: &[u8] = if a == (1 << wbits) - 1 { &flat[k * n..(k + 1) * n] } else { &t[..n] };
        zs[k * n..(k + 1) * n].copy_from_slice(z);
        k += 1;
    }
    let f = q(p + 1);
    assert!(f.kind == 0 && f.len == 22 + p * n && eq(&f.head[..16], &i) && eq(&f.head[16..20], &leaf.to_be_bytes()) && f.head[20] == 0x80 && f.head[21] == 0x80, "Kc pre-image: I | q | D_PBLC | z");
    assert!(eq(&f.fp, &rec_fp(&[&i, &leaf.to_be_bytes(), &[0x80, 0x80], &zs[..p * n]])), "z_0 .. z_(p-1) in order");
    let tf = tape(p + 1);
    assert!(eq(cand.as_slice(), &tf[..n]), "candidate is that digest");
    kani::cover!(mlen == 5, "longest message");
}
harness! { fn c07_ots_candidate_transcript_n16_w8() unwind 70 { ots_candidate_transcript::<RecSum16, { 16 * 18 }>(LmotsAlgorithm::LmotsW8, 8, 18, 0) }}
harness! { fn c07_ots_candidate_transcript_n16_w8_q2() unwind 70 { ots_candidate_transcript::<RecSum16, { 16 * 18 }>(LmotsAlgorithm::LmotsW8, 8, 18, 1) }}
harness! { fn c07_ots_candidate_transcript_n16_w4() unwind 70 { ots_candidate_transcript::<RecSum16, { 16 * 35 }>(LmotsAlgorithm::LmotsW4, 4, 35, 0) }}
harness! { fn c07_ots_candidate_transcript_n16_w4_q2() unwind 70 { ots_candidate_transcript::<RecSum16, { 16 * 35 }>(LmotsAlgorithm::LmotsW4, 4, 35, 1) }}
harness! { fn c07_ots_candidate_transcript_n32_w8() unwind 70 { ots_candidate_transcript::<RecSum32, { 32 * 34 }>(LmotsAlgorithm::LmotsW8, 8, 34, 0) }}
harness! { fn c07_ots_candidate_transcript_n32_w8_q2() unwind 70 { ots_candidate_transcript::<RecSum32, { 32 * 34 }>(LmotsAlgorithm::LmotsW8, 8, 34, 1) }}

// ---- the trait's default chain loop: x_{j+1} = H(I | q | u16(i) | u8(j) | x_j) ---------------------
fn chain_default_loop<H: HashChain>(from: usize, steps: usize) {
    rec_reset_symbolic();
    let n = H::OUTPUT_SIZE as usize;
    let i: [u8; 16] = kani::any();
    let leaf: [u8; 4] = kani::any();
    let id: u16 = kani::any();
    let startb: [u8; 32] = kani::any();
    let mut data = H::prepare_hash_chain_data(&i, &leaf);
    let mut h = H::default();
    let r = h.do_hash_chain(&mut data, id, &startb[..n], from, from + steps);
    assert!(ok() && nq() == steps, "one digest per chain step");
    let mut k = 0;
    while k < steps {
        let x = q(k);
        assert!(x.kind == 0 && x.len == 23 + n, "chain step pre-image length 23 + n");
        assert!(eq(&x.head[..16], &i) && eq(&x.head[16..20], &leaf), "I | q");
        assert!(eq(&x.head[20..22], &id.to_be_bytes()), "u16 chain index");
        assert!(x.head[22] == (from + k) as u8, "u8 step counter j");
        let tp = if k == 0 { [0u8; 32] } else { tape(k - 1) };
        let prev: &[u8] = if k == 0 { &startb[..n] } else { &tp[..n] };
        assert!(eq(&x.head[23..23 + n], prev), "previous chain value");
        k += 1;
    }
    let tl = if steps == 0 { [0u8; 32] } else { tape(steps - 1) };
    let want: &[u8] = if steps == 0 { &startb[..n] } else { &tl[..n] };
    assert!(eq(r.as_slice(), want), "result is the last digest (or the start value for an empty chain)");
    kani::cover!(id > 255, "chain index above 255");
}
harness! { fn c07_chain_default_loop_n16() unwind 70 { chain_default_loop::<Rec16>(0, 3) }}
harness! { fn c07_chain_default_loop_n16_tail() unwind 70 { chain_default_loop::<Rec16>(253, 2) }}
harness! { fn c07_chain_default_loop_n16_empty() unwind 70 { chain_default_loop::<Rec16>(7, 0) }}
harness! { fn c07_chain_default_loop_n32() unwind 70 { chain_default_loop::<Rec32>(0, 2) }}

// ---- cheap observation of the two fixed-layout pre-images of LM-OTS signing / verification ----------
// (first query = message digest Q, last query = public key candidate Kc); digests havoc, chains one
// havoc step. The digit-driven chain positions are NOT observed here (see DESIGN.md 8.3, C01).
fn ots_ends<H: HashChain, const YLEN: usize>(w: LmotsAlgorithm, p: usize) {
    let n = H::OUTPUT_SIZE as usize;
    let i: [u8; 16] = kani::any();
    let leaf: u32 = kani::any();
    let par = w.construct_parameter::<H>().unwrap();
    let mut key: ArrayVec<[ArrayVec<[u8; 32]>; hbs_lms::verif_hooks::constants::MAX_NUM_WINTERNITZ_CHAINS]> = ArrayVec::new();
    let mut k = 0;
    while k < p { let d: [u8; 32] = kani::any(); key.push(ArrayVec::from_array_len(d, n)); k += 1; }
    let sk = hbs_lms::verif_hooks::lmots_definitions::LmotsPrivateKey::<H>::new(i, leaf.to_be_bytes(), key, par);
    let cb: [u8; 32] = kani::any();
    let c: ArrayVec<[u8; 32]> = ArrayVec::from_array_len(cb, n);
    let msg: [u8; 5] = kani::any();
    let mlen: usize = kani::any();
    kani::assume(mlen <= 5);
    rec_ends_reset();
    let sig = LmotsSignature::sign(&sk, &c, &msg[..mlen]);
    let (cnt, chains, m) = unsafe { (REC_ENDS.count, REC_ENDS.chains, REC_ENDS.first) };
    assert!(cnt == 1 && chains == p, "signing: one message digest and p chains");
    assert!(m.len == 22 + n + mlen, "Q pre-image length 22 + n + |message|");
    assert!(eq(&m.head[..16], &i) && eq(&m.head[16..20], &leaf.to_be_bytes()) && m.head[20] == 0x81 && m.head[21] == 0x81, "I | q | D_MESG");
    assert!(eq(&m.head[22..22 + n], &cb[..n]) && eq(&m.head[22 + n..22 + n + mlen], &msg[..mlen]), "then the randomizer C, then the message");
    assert!(eq(sig.signature_randomizer.as_slice(), &cb[..n]) && sig.signature_data.len() == p, "signature carries C and p chain values");
    // verifier side
    let flat: [u8; YLEN] = kani::any();
    let parsed = InMemoryLmotsSignature::<H> { signature_randomizer: &cb[..n], signature_data: &flat[..n * p], lmots_parameter: par };
    rec_ends_reset();
    let _cand = generate_public_key_candidate(&parsed, &i, leaf, &msg[..mlen]);
    let (cnt, chains, m2, f) = unsafe { (REC_ENDS.count, REC_ENDS.chains, REC_ENDS.first, REC_ENDS.last) };
    assert!(cnt == 2 && chains == p, "verification: message digest, p chains, candidate digest");
    assert!(m2.len == 22 + n + mlen && eq(&m2.head[..22 + n + mlen], &m.head[..22 + n + mlen]), "the verifier hashes the same Q pre-image as the signer");
    assert!(f.len == 22 + p * n, "Kc pre-image length 22 + p n");
    assert!(eq(&f.head[..16], &i) && eq(&f.head[16..20], &leaf.to_be_bytes()) && f.head[20] == 0x80 && f.head[21] == 0x80, "I | q | D_PBLC");
    kani::cover!(mlen == 5, "longest message");
}
harness! { fn c07_ots_preimage_ends_n16_w8() unwind 70 { ots_ends::<RecEnds16, { 16 * 18 }>(LmotsAlgorithm::LmotsW8, 18) }}
harness! { fn c07_ots_preimage_ends_n32_w8() unwind 70 { ots_ends::<RecEnds32, { 32 * 34 }>(LmotsAlgorithm::LmotsW8, 34) }}
