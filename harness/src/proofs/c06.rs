//! C06 — verification is total on arbitrary bytes.
use crate::models::*;
use hbs_lms::signature::{Signature as _, Verifier};
use hbs_lms::verif_hooks::hss_definitions::InMemoryHssPublicKey;
use hbs_lms::verif_hooks::hss_signing::InMemoryHssSignature;
use hbs_lms::{Signature, VerifierSignature, VerifyingKey};

macro_rules! parse_sig {
    ($name:ident, $h:ty, $cap:expr, $unwind:literal) => {
        harness! { fn $name() unwind $unwind {
            const CAP: usize = $cap;
            let buf: [u8; CAP] = kani::any();
            let len: usize = kani::any();
            kani::assume(len <= CAP);
            let r = InMemoryHssSignature::<$h>::new(&buf[..len]);
            kani::cover!(r.is_some(), "some signature parses");
            kani::cover!(r.is_none(), "some signature is rejected");
        }}
    };
}
// caps: one signed public key + one signature of the smallest shape (W8, h=2 hook type / h=5) + slack
parse_sig!(c06_parse_hss_sig_n16, Havoc16, 900, 7);
parse_sig!(c06_parse_hss_sig_n24, Havoc24, 1560, 7);
parse_sig!(c06_parse_hss_sig_n32, Havoc32, 2560, 7);

macro_rules! parse_pk {
    ($name:ident, $h:ty) => {
        harness! { fn $name() unwind 4 {
            const CAP: usize = 72;
            let buf: [u8; CAP] = kani::any();
            let len: usize = kani::any();
            kani::assume(len <= CAP);
            let r = InMemoryHssPublicKey::<$h>::new(&buf[..len]);
            kani::cover!(r.is_some(), "some public key parses");
            kani::cover!(r.is_none(), "some public key is rejected");
        }}
    };
}
parse_pk!(c06_parse_hss_pk_n16, Havoc16);
parse_pk!(c06_parse_hss_pk_n24, Havoc24);
parse_pk!(c06_parse_hss_pk_n32, Havoc32);

// ---- level-capacity boundary, decided under a 2-level build (HBS_LMS_MAX_ALLOWED_HSS_LEVELS=2) where the
// container of signed public keys has capacity 1: two parseable signed keys fit a 1.3 KB buffer -------
#[cfg(verif_levels = "2")]
mod level_capacity {
    use super::*;
    const N: usize = 16;
    const OTS: usize = 4 + N + N * 18;
    const LMS_SIG: usize = 4 + OTS + 4 + N * 5;
    const SPK: usize = LMS_SIG + 24 + N;

    fn shape(buf: &mut [u8], off: usize) {
        // LM-OTS type W8, LMS type H5 at the offsets of an LMS signature starting at `off`
        buf[off + 4..off + 8].copy_from_slice(&4u32.to_be_bytes());
        buf[off + 4 + OTS..off + 8 + OTS].copy_from_slice(&5u32.to_be_bytes());
    }
    fn pk_shape(buf: &mut [u8], off: usize) {
        buf[off..off + 4].copy_from_slice(&5u32.to_be_bytes());
        buf[off + 4..off + 8].copy_from_slice(&4u32.to_be_bytes());
    }

    // every level count with as many well-formed signed public keys as the count announces (0..=3):
    // no panic, and a count beyond what a 2-level key can produce is rejected
    fn level_count(level: u32) {
        const CAP: usize = 4 + 3 * SPK + LMS_SIG;
        let mut buf: [u8; CAP] = kani::any();
        buf[..4].copy_from_slice(&level.to_be_bytes());
        let mut off = 4;
        let mut k = 0;
        while k < level as usize && k < 3 {
            shape(&mut buf, off);
            pk_shape(&mut buf, off + LMS_SIG);
            off += SPK;
            k += 1;
        }
        shape(&mut buf, off);
        let len = off + LMS_SIG;
        let r = InMemoryHssSignature::<Havoc16>::new(&buf[..len]);
        if level >= 2 {
            assert!(r.is_none(), "more signed public keys than the build supports: rejected, not a crash");
        } else {
            // C01: everything a key within the configured limits can produce must parse
            let q_ok = {
                let mut ok = true;
                let mut o = 4;
                let mut k = 0;
                while k <= level as usize { let q = u32::from_be_bytes([buf[o], buf[o + 1], buf[o + 2], buf[o + 3]]); if q >= 32 { ok = false; } o += SPK; k += 1; }
                ok
            };
            assert!(r.is_some() == q_ok, "a well-formed signature with the maximum level count parses");
        }
        kani::cover!(true, "reached");
    }
    harness! { fn c06_level_count_0_of_2() unwind 8 { level_count(0) }}
    harness! { fn c06_level_count_1_of_2() unwind 8 { level_count(1) }}
    harness! { fn c06_level_count_2_of_2() unwind 8 { level_count(2) }}
    harness! { fn c06_level_count_3_of_2() unwind 8 { level_count(3) }}
}
