//! C06 — verification is total on arbitrary bytes.
use crate::models::*;
use hbs_lms::signature::{Signature as _, Verifier};
use hbs_lms::verif_hooks::hss_definitions::InMemoryHssPublicKey;
use hbs_lms::verif_hooks::hss_signing::InMemoryHssSignature;
use hbs_lms::{Signature, VerifierSignature, VerifyingKey};

macro_rules! parse_sig {
    ($name:ident, $h:ty, $cap:expr, $unwind:literal) => {
        harness! { fn $name() unwind $unwind {
            const CAP: usize = $cap;
            let buf: [u8; CAP] = kani::any();
            let len: usize = kani::any();
            kani::assume(len <= CAP);
            let r = InMemoryHssSignature::<$h>::new(&buf[..len]);
            kani::cover!(r.is_some(), "some signature parses");
            kani::cover!(r.is_none(), "some signature is rejected");
        }}
    };
}
// caps: one signed public key + one signature of the smallest shape (W8, h=2 hook type / h=5) + slack
parse_sig!(c06_parse_hss_sig_n16, Havoc16, 900, 7);
parse_sig!(c06_parse_hss_sig_n24, Havoc24, 1560, 7);
parse_sig!(c06_parse_hss_sig_n32, Havoc32, 2560, 7);

macro_rules! parse_pk {
    ($name:ident, $h:ty) => {
        harness! { fn $name() unwind 4 {
            const CAP: usize = 72;
            let buf: [u8; CAP] = kani::any();
            let len: usize = kani::any();
            kani::assume(len <= CAP);
            let r = InMemoryHssPublicKey::<$h>::new(&buf[..len]);
            kani::cover!(r.is_some(), "some public key parses");
            kani::cover!(r.is_none(), "some public key is rejected");
        }}
    };
}
parse_pk!(c06_parse_hss_pk_n16, Havoc16);
parse_pk!(c06_parse_hss_pk_n24, Havoc24);
parse_pk!(c06_parse_hss_pk_n32, Havoc32);
