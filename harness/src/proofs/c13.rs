//! C13 / C05 / C03 kernels — counter decomposition, increment, lifetime arithmetic for every key shape.
use crate::models::*;
use hbs_lms::verif_hooks::hss_definitions::*;
use hbs_lms::verif_hooks::hss_key::*;
use hbs_lms::verif_hooks::lms_definitions::*;
use hbs_lms::{HssParameter, LmotsAlgorithm, LmsAlgorithm, Seed};
use tinyvec::ArrayVec;

type H = Havoc16;

/// arbitrary supported height (the five RFC heights and the 4-leaf hook height)
pub fn any_height() -> (LmsAlgorithm, u32) {
    let k: u8 = kani::any();
    kani::assume(k < 6);
    match k {
        0 => (LmsAlgorithm::LmsH5, 5),
        1 => (LmsAlgorithm::LmsH10, 10),
        2 => (LmsAlgorithm::LmsH15, 15),
        3 => (LmsAlgorithm::LmsH20, 20),
        4 => (LmsAlgorithm::LmsH25, 25),
        _ => (LmsAlgorithm::LmsH2, 2),
    }
}

/// arbitrary parameter list of 1..=8 levels; returns (params, heights, levels, total height)
pub fn any_shape(levels: usize) -> (ArrayVec<[HssParameter<H>; 8]>, [u32; 8], usize, u32) {
    let mut params: ArrayVec<[HssParameter<H>; 8]> = ArrayVec::new();
    let mut hs = [0u32; 8];
    let mut total = 0u32;
    let mut i = 0;
    while i < 8 {
        if i < levels {
            let (a, h) = any_height();
            params.push(HssParameter::new(LmotsAlgorithm::LmotsW8, a));
            hs[i] = h;
            total += h;
        }
        i += 1;
    }
    (params, hs, levels, total)
}

// ---- digit rule: mixed radix, bottom level least significant ---------------------------------
fn c13_digits_mixed_radix(levels_in: usize) {{
    let (params, hs, levels, total) = any_shape(levels_in);
    kani::assume(total <= 63);
    let c: u64 = kani::any();
    kani::assume(c < (1u64 << total));
    let got = CompressedUsedLeafsIndexes::new(c).to(&params);
    let mut below = 0u32;
    let mut i = levels;
    while i > 0 {
        i -= 1;
        let d = ((c >> below) % (1u64 << hs[i])) as u32;
        assert!(got[i] == d, "leaf index is the mixed-radix digit of the counter");
        below += hs[i];
    }
    let mut j = 0;
    while j < 8 {
        if j >= levels { assert!(got[j] == 0, "unused levels have index 0"); }
        j += 1;
    }
    kani::cover!(total >= 40 || levels < 2, "large total height reachable");
    kani::cover!(c == (1u64 << total) - 1, "last counter value");
}}

// ---- injectivity: different counters of the same shape never select the same leaf vector ------
fn c13_digits_injective(levels_in: usize) {{
    let (params, hs, levels, total) = any_shape(levels_in);
    kani::assume(total <= 63);
    let c1: u64 = kani::any();
    let c2: u64 = kani::any();
    kani::assume(c1 < (1u64 << total) && c2 < (1u64 << total));
    let a = CompressedUsedLeafsIndexes::new(c1).to(&params);
    let b = CompressedUsedLeafsIndexes::new(c2).to(&params);
    let mut same = true;
    let mut j = 0;
    while j < 8 { if a[j] != b[j] { same = false; } j += 1; }
    assert!(!same || c1 == c2, "two counters with the same leaf vector are equal");
    // equal prefixes 0..=l of the leaf vector <=> equal counter after dropping the levels below l
    let l: usize = kani::any();
    kani::assume(l < levels);
    let mut below = 0u32;
    let mut k = levels;
    while k > l + 1 { k -= 1; below += hs[k]; }
    let mut pre = true;
    let mut j = 0;
    while j < 8 { if j <= l && a[j] != b[j] { pre = false; } j += 1; }
    assert!(pre == ((c1 >> below) == (c2 >> below)), "leaf-vector prefix identifies the subtree path");
    kani::cover!(same, "equal vectors reachable");
    kani::cover!(pre && (!same || levels == 1), "same upper path reachable");
}}

// ---- increment: +1 until the last leaf, exhaustion exactly at 2^total - 1 --------------------
fn c13_increment_rule(levels_in: usize) {{
    let (_params, hs, levels, total) = any_shape(levels_in);
    kani::assume(total <= 63);
    let mut hv: ArrayVec<[u8; 8]> = ArrayVec::new();
    let mut i = 0;
    while i < 8 { if i < levels { hv.push(hs[i] as u8); } i += 1; }
    let c: u64 = kani::any();
    kani::assume(c < (1u64 << total));
    let mut cu = CompressedUsedLeafsIndexes::new(c);
    let r = cu.increment(&hv);
    if c < (1u64 << total) - 1 {
        assert!(r.is_ok(), "increment succeeds below the last leaf");
        assert!(cu == CompressedUsedLeafsIndexes::new(c + 1), "successor counter is c + 1");
    } else {
        assert!(r.is_err(), "increment reports exhaustion on the last leaf");
    }
    kani::cover!(r.is_err(), "exhaustion reachable");
    kani::cover!(r.is_ok(), "increment reachable");
}}

// ---- lifetime = number of leaves - counter on the state HssPrivateKey::from leaves behind ------
fn c13_lifetime_rule(levels_in: usize) {{
    let (params, hs, levels, total) = any_shape(levels_in);
    kani::assume(total <= 63);
    let c: u64 = kani::any();
    kani::assume(c < (1u64 << total));
    let q = CompressedUsedLeafsIndexes::new(c).to(&params);
    let mut key: HssPrivateKey<H> = Default::default();
    let mut i = 0;
    while i < 8 {
        if i < levels {
            // from(): every upper level has signed its child once (q_i + 1), the bottom level not yet
            let used = if i + 1 < levels { q[i] + 1 } else { q[i] };
            key.private_key.push(LmsPrivateKey::new(
                Seed::default(), [0u8; 16], used,
                *params[i].get_lmots_parameter(), *params[i].get_lms_parameter()));
        }
        i += 1;
    }
    assert!(key.get_lifetime() == (1u64 << total) - c, "remaining lifetime = leaves - counter");
    kani::cover!(c == 0, "fresh key");
    kani::cover!(c == (1u64 << total) - 1, "last leaf");
}}

// ---- taller lists (total height >= 64): no arithmetic failure, same digit rule, no early exhaustion
fn c13_tall_no_arith_failure(levels_in: usize) {{
    let (params, hs, levels, total) = any_shape(levels_in);
    kani::assume(total >= 64);
    let mut hv: ArrayVec<[u8; 8]> = ArrayVec::new();
    let mut i = 0;
    while i < 8 { if i < levels { hv.push(hs[i] as u8); } i += 1; }
    let c: u64 = kani::any();
    let got = CompressedUsedLeafsIndexes::new(c).to(&params);
    // digit rule on the 64-bit counter: shift-and-mask, levels above bit 63 read 0
    let mut below = 0u32;
    let mut i = levels;
    while i > 0 {
        i -= 1;
        let d = if below >= 64 { 0 } else { ((c >> below) % (1u64 << hs[i])) as u32 };
        assert!(got[i] == d, "tall shape: leaf index is still the mixed-radix digit");
        below += hs[i];
    }
    let mut cu = CompressedUsedLeafsIndexes::new(c);
    let r = cu.increment(&hv);
    if c < u64::MAX {
        assert!(r.is_ok(), "tall shape: never reported exhausted below 2^64 - 1");
        assert!(cu == CompressedUsedLeafsIndexes::new(c + 1), "tall shape: successor is c + 1");
    }
    // lifetime query must not fail arithmetically either
    let mut key: HssPrivateKey<H> = Default::default();
    let mut i = 0;
    while i < 8 {
        if i < levels {
            let used = if i + 1 < levels { got[i] + 1 } else { got[i] };
            key.private_key.push(LmsPrivateKey::new(
                Seed::default(), [0u8; 16], used,
                *params[i].get_lmots_parameter(), *params[i].get_lms_parameter()));
        }
        i += 1;
    }
    let life = key.get_lifetime();
    assert!(life >= 1, "tall shape: a key below 2^64 - 1 has signatures left");
    kani::cover!(total == 25 * levels as u32, "all levels of height 25");
    kani::cover!(c == u64::MAX, "largest counter");
}}

// ---- wipe on exhaustion (C05/C16): counter 0, parameter bytes cleared, seed zero, same length ---
fn c05_wipe_on_last_leaf(levels_in: usize) {{
    let (params, hs, levels, total) = any_shape(levels_in);
    kani::assume(total <= 63);
    let sb: [u8; 16] = kani::any();
    let mut seed = Seed::<H>::default();
    seed.as_mut_slice().copy_from_slice(&sb);
    let mut sk = ReferenceImplPrivateKey::<H>::generate(params.as_slice(), &seed).unwrap();
    let c: u64 = kani::any();
    kani::assume(c < (1u64 << total));
    sk.compressed_used_leafs_indexes = CompressedUsedLeafsIndexes::new(c);
    let before = sk.to_binary_representation();
    // increment() only reads the heights of the expanded key
    let mut key: HssPrivateKey<H> = Default::default();
    let mut i = 0;
    while i < 8 {
        if i < levels {
            key.private_key.push(LmsPrivateKey::new(Seed::default(), [0u8; 16], 0,
                *params[i].get_lmots_parameter(), *params[i].get_lms_parameter()));
        }
        i += 1;
    }
    sk.increment(&key);
    let after = sk.to_binary_representation();
    assert!(after.len() == before.len(), "successor blob has the same length");
    assert!(after.len() == 8 + 8 + 16, "blob = counter(8) + parameters(8) + seed(n)");
    if c < (1u64 << total) - 1 {
        assert!(after[..8] == (c + 1).to_be_bytes(), "counter advanced by one");
        let mut k = 8;
        while k < 32 { assert!(after[k] == before[k], "nothing but the counter changes"); k += 1; }
    } else {
        let mut k = 0;
        while k < 8 { assert!(after[k] == 0, "wiped: counter zero"); k += 1; }
        while k < 16 { assert!(after[k] == 0xff, "wiped: parameter bytes cleared"); k += 1; }
        while k < 32 { assert!(after[k] == 0, "wiped: no seed byte survives"); k += 1; }
        // and the wiped blob is refused on load
        let re = ReferenceImplPrivateKey::<H>::from_binary_representation(after.as_slice());
        assert!(re.is_ok(), "wiped blob has a well-formed length");
        assert!(re.unwrap().compressed_parameter.to::<H>().is_err(), "wiped blob has no parameters: refused");
    }
    kani::cover!(c == (1u64 << total) - 1, "last leaf reachable");
    kani::cover!(c == 0, "fresh key reachable");
}}

macro_rules! per_levels {
    ($f:ident: $($name:ident = $l:expr),*) => { $( harness! { fn $name() unwind 34 { $f($l) }} )* };
}
per_levels!(c13_digits_mixed_radix: c13_digits_l1 = 1, c13_digits_l2 = 2, c13_digits_l3 = 3, c13_digits_l4 = 4,
            c13_digits_l5 = 5, c13_digits_l6 = 6, c13_digits_l7 = 7, c13_digits_l8 = 8);
per_levels!(c13_digits_injective: c13_injective_l1 = 1, c13_injective_l2 = 2, c13_injective_l3 = 3, c13_injective_l4 = 4,
            c13_injective_l5 = 5, c13_injective_l6 = 6, c13_injective_l7 = 7, c13_injective_l8 = 8);
per_levels!(c13_increment_rule: c13_increment_l1 = 1, c13_increment_l2 = 2, c13_increment_l3 = 3, c13_increment_l4 = 4,
            c13_increment_l5 = 5, c13_increment_l6 = 6, c13_increment_l7 = 7, c13_increment_l8 = 8);
per_levels!(c13_lifetime_rule: c13_lifetime_l1 = 1, c13_lifetime_l2 = 2, c13_lifetime_l3 = 3, c13_lifetime_l4 = 4,
            c13_lifetime_l5 = 5, c13_lifetime_l6 = 6, c13_lifetime_l7 = 7, c13_lifetime_l8 = 8);
per_levels!(c13_tall_no_arith_failure: c13_tall_l3 = 3, c13_tall_l4 = 4, c13_tall_l5 = 5, c13_tall_l6 = 6, c13_tall_l7 = 7, c13_tall_l8 = 8);
per_levels!(c05_wipe_on_last_leaf: c05_wipe_l1 = 1, c05_wipe_l2 = 2, c05_wipe_l3 = 3, c05_wipe_l4 = 4,
            c05_wipe_l5 = 5, c05_wipe_l6 = 6, c05_wipe_l7 = 7, c05_wipe_l8 = 8);
