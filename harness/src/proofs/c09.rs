//! C09 — key generation and signing are pure functions of their inputs (2-run harnesses under the
//! deterministic toy family: any consulted global, RNG, clock or address-dependent value makes the
//! two runs differ for some assignment; FFI randomness is unsupported by Kani and would surface as
//! an inconclusive run).
use crate::models::*;
use hbs_lms::signature::SignerMut;
use hbs_lms::verif_hooks::hss_key::*;
use hbs_lms::verif_hooks::lmots_keygen::generate_private_key;
use hbs_lms::{HashChain, HssParameter, LmotsAlgorithm, LmsAlgorithm, Seed, SigningKey};

type H = ToySum16;

fn eq(a: &[u8], b: &[u8]) -> bool {
    if a.len() != b.len() { return false; }
    let mut i = 0;
    let mut r = true;
    while i < a.len() { if a[i] != b[i] { r = false; } i += 1; }
    r
}

/// derivation units, real code, twice with an unrelated derivation in between
harness! { fn c09_derivation_units_twice() unwind 40 {
    salt_symbolic();
    let raw: [u8; 32] = kani::any();
    let other: [u8; 32] = kani::any();
    let params = [HssParameter::<H>::new(LmotsAlgorithm::LmotsW8, LmsAlgorithm::LmsH5)];
    let sk = ReferenceImplPrivateKey::<H>::generate(&params, &Seed::<H>::from(raw)).unwrap();
    let sk2 = ReferenceImplPrivateKey::<H>::generate(&params, &Seed::<H>::from(other)).unwrap();
    let a = sk.generate_root_seed_and_lms_tree_identifier();
    let _noise = sk2.generate_root_seed_and_lms_tree_identifier();
    let b = sk.generate_root_seed_and_lms_tree_identifier();
    assert!(eq(a.seed.as_slice(), b.seed.as_slice()) && a.lms_tree_identifier == b.lms_tree_identifier, "root seed / identifier depend only on the seed");
    let leaf: u32 = kani::any();
    let c1 = generate_child_seed_and_lms_tree_identifier::<H>(&a, &leaf);
    let _n = generate_child_seed_and_lms_tree_identifier::<H>(&_noise, &leaf);
    let c2 = generate_child_seed_and_lms_tree_identifier::<H>(&b, &leaf);
    assert!(eq(c1.seed.as_slice(), c2.seed.as_slice()) && c1.lms_tree_identifier == c2.lms_tree_identifier, "child seed / identifier are a function of (parent seed, parent I, leaf)");
    let r1 = generate_signature_randomizer::<H>(&c1, &leaf);
    let r2 = generate_signature_randomizer::<H>(&c2, &leaf);
    assert!(eq(r1.as_slice(), r2.as_slice()), "the per-leaf randomizer is derived, not drawn");
    let par = LmotsAlgorithm::LmotsW8.construct_parameter::<H>().unwrap();
    let k1 = generate_private_key(c1.lms_tree_identifier, leaf.to_be_bytes(), c1.seed.clone(), par);
    let k2 = generate_private_key(c2.lms_tree_identifier, leaf.to_be_bytes(), c2.seed.clone(), par);
    let mut i = 0;
    while i < 18 { assert!(eq(k1.key.as_slice()[i].as_slice(), k2.key.as_slice()[i].as_slice()), "one-time chain start values are a function of (seed, I, q)"); i += 1; }
    kani::cover!(true, "reached");
}}

/// HSS level over the LMS contract (deterministic under the toy family): sign twice from the same
/// key bytes with another key's signing in between, and once through the in-memory SigningKey:
/// byte-identical signatures and successor keys.
fn sign_twice(param_bytes: &[u8], heights: &[u32]) {
    salt_symbolic();
    let levels = param_bytes.len();
    let mut total = 0u32;
    let mut l = 0;
    while l < levels { total += heights[l]; l += 1; }
    let mut key = [0xffu8; 32];
    let c: u64 = kani::any();
    kani::assume(c < (1u64 << total));
    key[..8].copy_from_slice(&c.to_be_bytes());
    key[8..8 + levels].copy_from_slice(param_bytes);
    let seed: [u8; 16] = kani::any();
    key[16..].copy_from_slice(&seed);
    let mut other = key;
    let oseed: [u8; 16] = kani::any();
    other[16..].copy_from_slice(&oseed);
    let msg: [u8; 3] = kani::any();
    let mut s1 = [0u8; 32];
    let mut s2 = [0u8; 32];
    let mut cb1 = |k: &[u8]| { if k.len() == 32 { s1.copy_from_slice(k); } Ok(()) };
    let r1 = hbs_lms::sign::<H>(&msg, &key, &mut cb1, None).unwrap();
    let mut cbn = |_k: &[u8]| Ok(());
    let _ = hbs_lms::sign::<H>(&[0u8; 1], &other, &mut cbn, None);
    let mut cb2 = |k: &[u8]| { if k.len() == 32 { s2.copy_from_slice(k); } Ok(()) };
    let r2 = hbs_lms::sign::<H>(&msg, &key, &mut cb2, None).unwrap();
    let (a, b): (&[u8], &[u8]) = (r1.as_ref(), r2.as_ref());
    assert!(a.len() == b.len(), "same signature length");
    assert!(a.len() <= 40, "contract signatures are short");
    let mut i = 0;
    while i < 40 { if i < a.len() { assert!(a[i] == b[i], "signing twice from the same key bytes gives byte-identical signatures"); } i += 1; }
    assert!(s1 == s2, "and the same successor key");
    let mut sk = SigningKey::<H>::from_bytes(&key).unwrap();
    let r3 = sk.try_sign(&msg).unwrap();
    let d: &[u8] = r3.as_ref();
    assert!(d.len() == a.len(), "in-memory entry point: same length");
    let mut i = 0;
    while i < 40 { if i < a.len() { assert!(a[i] == d[i], "the in-memory signing key yields the same signature as the byte-level function"); } i += 1; }
    assert!(eq(sk.as_slice(), &s1), "and the same successor key");
    kani::cover!(c == 0, "fresh key reachable");
}
harness_lms_contract! { fn c09_sign_twice_contract_h5() unwind 36 { sign_twice(&[0x54], &[5]) }}
harness_lms_contract! { fn c09_sign_twice_contract_h5_h5() unwind 36 { sign_twice(&[0x54, 0x54], &[5, 5]) }}
