//! C04 — a signature is released only after the successor key was handed over and accepted.
//! (also serves C05 refusal, C11 totality of sign on arbitrary key bytes, C03 step)
use crate::models::*;
use crate::reference::ref_param_bytes_cfg;
use hbs_lms::signature::SignerMut;
use hbs_lms::{HashChain, SigningKey};

/// Real code, one level H2/W8 (type byte 0x14), symbolic counter over the whole lifetime, seed,
/// message, callback outcome. Natively replayable.
fn protocol_real<H: HashChain, const KL: usize>(levels: usize, c: u64) {
    // the counter is concrete per harness instance: a symbolic leaf index makes the recursive
    // tree walk (get_tree_element) unbounded for the symbolic executor
    let mut key = [0xffu8; KL];
    let total = 2 * levels as u32;
    key[..8].copy_from_slice(&c.to_be_bytes());
    let mut l = 0;
    while l < levels { key[8 + l] = 0x14; l += 1; }
    let seed: [u8; 32] = kani::any();
    key[16..].copy_from_slice(&seed[..KL - 16]);
    let msg: [u8; 4] = kani::any();
    let mlen: usize = kani::any();
    kani::assume(mlen <= 4);
    let accept: bool = kani::any();
    let mut calls = 0u32;
    let mut arg = [0u8; KL];
    let mut arg_len = 0usize;
    let mut cb = |k: &[u8]| {
        calls += 1;
        arg_len = k.len();
        if k.len() == KL { arg.copy_from_slice(k); }
        if accept { Ok(()) } else { Err(()) }
    };
    let r = hbs_lms::sign::<H>(&msg[..mlen], &key, &mut cb, None);
    assert!(calls == 1, "callback invoked exactly once for a usable key");
    assert!(r.is_ok() == accept, "signature released iff the callback accepted the successor key");
    assert!(arg_len == KL, "callback receives a complete key blob");
    if c < (1u64 << total) - 1 {
        assert!(arg[..8] == (c + 1).to_be_bytes(), "successor counter is c + 1");
        let mut k = 8;
        while k < KL { assert!(arg[k] == key[k], "successor differs only in the counter"); k += 1; }
    } else {
        let mut k = 0;
        while k < 8 { assert!(arg[k] == 0, "last leaf: wiped counter"); k += 1; }
        while k < 16 { assert!(arg[k] == 0xff, "last leaf: wiped parameters"); k += 1; }
        while k < KL { assert!(arg[k] == 0, "last leaf: wiped seed"); k += 1; }
    }
    if let Ok(sig) = &r {
        // C03 step: the released signature's leaf fields are the digits of the *input* counter
        let s: &[u8] = sig.as_ref();
        assert!(s[..4] == ((levels - 1) as u32).to_be_bytes(), "level count field");
        let q0 = u32::from_be_bytes([s[4], s[5], s[6], s[7]]) as u64;
        assert!(q0 == (c >> (total - 2)), "top-level leaf index is the top digit of the counter");
    }
    kani::cover!(r.is_ok(), "accepted path reachable");
    kani::cover!(r.is_err(), "rejected path reachable");
}

harness! { fn c04_protocol_real_h2w8_l1_c0() unwind 36 { protocol_real::<HavocSum16, 32>(1, 0) }}
harness! { fn c04_protocol_real_h2w8_l1_c1() unwind 36 { protocol_real::<HavocSum16, 32>(1, 1) }}
harness! { fn c04_protocol_real_h2w8_l1_c2() unwind 36 { protocol_real::<HavocSum16, 32>(1, 2) }}
harness! { fn c04_protocol_real_h2w8_l1_c3() unwind 36 { protocol_real::<HavocSum16, 32>(1, 3) }}
harness! { fn c04_protocol_real_h2w8_l2_c0() unwind 36 { protocol_real::<HavocSum16, 32>(2, 0) }}
harness! { fn c04_protocol_real_h2w8_l2_c3() unwind 36 { protocol_real::<HavocSum16, 32>(2, 3) }}
harness! { fn c04_protocol_real_h2w8_l2_c4() unwind 36 { protocol_real::<HavocSum16, 32>(2, 4) }}
harness! { fn c04_protocol_real_h2w8_l2_c15() unwind 36 { protocol_real::<HavocSum16, 32>(2, 15) }}

/// SigningKey entry point: the in-memory key advances iff a signature is returned.
fn signing_key_entry(c: u64) {
    let mut key = [0xffu8; 32];
    key[..8].copy_from_slice(&c.to_be_bytes());
    key[8] = 0x14;
    let seed: [u8; 16] = kani::any();
    key[16..].copy_from_slice(&seed);
    let mut sk = SigningKey::<HavocSum16>::from_bytes(&key).unwrap();
    let life_before = sk.get_lifetime();
    assert!(life_before.ok() == Some(4 - c), "remaining lifetime = leaves - counter");
    let msg: [u8; 3] = kani::any();
    let r = sk.try_sign(&msg);
    assert!(r.is_ok(), "in-memory signing key always accepts its own update");
    let after = sk.as_slice();
    assert!(after.len() == 32, "key length unchanged");
    if c < 3 {
        assert!(after[..8] == (c + 1).to_be_bytes(), "in-memory key advanced by one");
        assert!(sk.get_lifetime().ok() == Some(3 - c), "every released signature lowers the lifetime by one");
    } else {
        let mut k = 0;
        while k < 8 { assert!(after[k] == 0, "wiped counter"); k += 1; }
        while k < 16 { assert!(after[k] == 0xff, "wiped parameters"); k += 1; }
        while k < 32 { assert!(after[k] == 0, "wiped seed"); k += 1; }
        assert!(sk.get_lifetime().is_err(), "exhausted key: lifetime query fails");
        let r2 = sk.try_sign(&msg);
        assert!(r2.is_err(), "exhausted key refuses to sign");
        let mut k = 0;
        while k < 8 { assert!(sk.as_slice()[k] == 0, "refusal leaves the wiped key untouched"); k += 1; }
    }
    kani::cover!(true, "reached");
}
harness! { fn c04_signing_key_entry_h2w8_l1_c0() unwind 36 { signing_key_entry(0) }}
harness! { fn c04_signing_key_entry_h2w8_l1_c2() unwind 36 { signing_key_entry(2) }}
harness! { fn c04_signing_key_entry_h2w8_l1_c3() unwind 36 { signing_key_entry(3) }}

/// Every key byte string of every length 0..=40 with/without an arbitrary aux buffer. Everything up
/// to the expansion is real; the expansion itself (`HssPrivateKey::from`) is replaced by "fails", so
/// every path ends in an error: no callback, no signature, no panic - for malformed *and* for
/// well-formed keys whose expansion fails for any other reason.
fn malformed_key<H: HashChain>(with_aux: bool) {
    let key: [u8; 56] = kani::any();
    let klen: usize = kani::any();
    kani::assume(klen <= 56);
    let msg: [u8; 2] = kani::any();
    let accept: bool = kani::any();
    let mut calls = 0u32;
    let mut cb = |_k: &[u8]| {
        calls += 1;
        if accept { Ok(()) } else { Err(()) }
    };
    let mut aux_store: [u8; 48] = kani::any();
    let alen: usize = kani::any();
    kani::assume(alen <= 48);
    let r = if with_aux {
        let mut aux_slice: &mut [u8] = &mut aux_store[..alen];
        hbs_lms::sign::<H>(&msg, &key[..klen], &mut cb, Some(&mut aux_slice))
    } else {
        hbs_lms::sign::<H>(&msg, &key[..klen], &mut cb, None)
    };
    assert!(r.is_err(), "no signature when the key is malformed or its expansion fails");
    assert!(calls == 0, "callback not invoked when no signature could be produced");
    // the lifetime query takes the same route
    let sk = SigningKey::<H>::from_bytes(&key[..klen]);
    assert!(sk.is_ok() == (klen <= 48), "SigningKey::from_bytes accepts exactly the byte strings up to the blob capacity (48)");
    if let Ok(sk) = sk {
        assert!(sk.get_lifetime().is_err(), "lifetime query fails for a malformed key / failed expansion");
    }
    let mut pb = [0u8; 8];
    if klen >= 16 { pb.copy_from_slice(&key[8..16]); }
    // exact acceptance set of the loader + parameter decoder: right length, a non-empty list of known type
    // codes within the configured limits, nothing but 0xff after the configured number of levels
    let loaded = hbs_lms::verif_hooks::hss_key::ReferenceImplPrivateKey::<H>::from_binary_representation(&key[..klen]);
    let decoded = match &loaded { Ok(k) => k.compressed_parameter.to::<H>().ok(), Err(_) => None };
    let want = if klen == 16 + H::OUTPUT_SIZE as usize { ref_param_bytes_cfg(&pb, true) } else { None };
    assert!(decoded.is_some() == want.is_some(), "a key blob is usable iff it has the right length and a well-formed parameter list inside the configured limits");
    if let (Some(d), Some((levels, _))) = (&decoded, want) {
        assert!(d.len() == levels, "decoded level count");
    }
    kani::cover!(klen == 16 + H::OUTPUT_SIZE as usize && ref_param_bytes_cfg(&pb, true).is_some(), "well-formed key reachable");
    kani::cover!(klen == 16 + H::OUTPUT_SIZE as usize && ref_param_bytes_cfg(&pb, true).is_none(), "right length, invalid parameters reachable");
    kani::cover!(klen == 0, "empty key reachable");
}

harness_stub! { fn c04_malformed_key_n16() unwind 18
    stub(hbs_lms::verif_hooks::hss_definitions::HssPrivateKey::from, crate::contracts::model_from_fails)
    { malformed_key::<HavocSum16>(false) }}
harness_stub! { fn c04_malformed_key_aux_n16() unwind 18
    stub(hbs_lms::verif_hooks::hss_definitions::HssPrivateKey::from, crate::contracts::model_from_fails)
    { malformed_key::<HavocSum16>(true) }}
harness_stub! { fn c04_malformed_key_n32() unwind 18
    stub(hbs_lms::verif_hooks::hss_definitions::HssPrivateKey::from, crate::contracts::model_from_fails)
    { malformed_key::<HavocSum32>(false) }}

/// Signing proper fails (contract "HssSignature::sign returns Err") on an otherwise usable key:
/// no callback, no signature.
harness_stub! { fn c04_sign_fails_no_callback() unwind 18
    stub(hbs_lms::verif_hooks::hss_signing::HssSignature::sign, crate::contracts::model_hss_sign_fails)
{
    let mut key = [0xffu8; 32];
    let c: u64 = 1;
    key[..8].copy_from_slice(&c.to_be_bytes());
    key[8] = 0x14;
    let seed: [u8; 16] = kani::any();
    key[16..].copy_from_slice(&seed);
    let accept: bool = kani::any();
    let mut calls = 0u32;
    let mut cb = |_k: &[u8]| { calls += 1; if accept { Ok(()) } else { Err(()) } };
    let r = hbs_lms::sign::<HavocSum16>(&[1, 2, 3], &key, &mut cb, None);
    assert!(r.is_err(), "no signature when signing fails");
    assert!(calls == 0, "callback not invoked when signing fails");
    kani::cover!(accept, "reached");
}}

/// C03/C05 step on tall shapes: LMS layer by contract, concrete shape (type bytes assigned),
/// symbolic counter over the complete lifetime, symbolic seed and callback outcome.
fn step_contract<H: HashChain>(param_bytes: &[u8], heights: &[u32]) {
    let levels = param_bytes.len();
    let mut total = 0u32;
    let mut l = 0;
    while l < levels { total += heights[l]; l += 1; }
    let mut key = [0xffu8; 32];
    let c: u64 = kani::any();
    kani::assume(c < (1u64 << total));
    key[..8].copy_from_slice(&c.to_be_bytes());
    key[8..8 + levels].copy_from_slice(param_bytes);
    let seed: [u8; 16] = kani::any();
    key[16..].copy_from_slice(&seed);
    let accept: bool = kani::any();
    let mut calls = 0u32;
    let mut arg = [0u8; 32];
    let mut arg_len = 0usize;
    let mut cb = |k: &[u8]| {
        calls += 1;
        arg_len = k.len();
        if k.len() == 32 { arg.copy_from_slice(k); }
        if accept { Ok(()) } else { Err(()) }
    };
    let life = SigningKey::<H>::from_bytes(&key).unwrap().get_lifetime();
    assert!(life.ok() == Some((1u64 << total) - c), "remaining lifetime = product of tree sizes - counter");
    let r = hbs_lms::sign::<H>(&[7u8, 7], &key, &mut cb, None);
    assert!(calls == 1, "exactly one update for a usable key");
    assert!(r.is_ok() == accept, "released iff accepted");
    assert!(arg_len == 32, "complete successor blob");
    if c < (1u64 << total) - 1 {
        assert!(arg[..8] == (c + 1).to_be_bytes(), "successor counter is c + 1");
        let mut k = 8;
        while k < 32 { assert!(arg[k] == key[k], "successor differs only in the counter"); k += 1; }
    } else {
        let mut k = 0;
        while k < 8 { assert!(arg[k] == 0, "last leaf: wiped counter"); k += 1; }
        while k < 16 { assert!(arg[k] == 0xff, "last leaf: wiped parameters"); k += 1; }
        while k < 32 { assert!(arg[k] == 0, "last leaf: wiped seed"); k += 1; }
    }
    if let Ok(sig) = &r {
        // the released signature (contract encoding: u32(levels - 1) | leaf index of every level) carries
        // the mixed-radix digits of the *input* counter
        let s: &[u8] = sig.as_ref();
        assert!(s.len() == 36, "contract signature record");
        assert!(s[..4] == ((levels - 1) as u32).to_be_bytes(), "level count field");
        let mut below = total;
        let mut l = 0;
        while l < levels {
            below -= heights[l];
            let o = 4 + 4 * l;
            let q = u32::from_be_bytes([s[o], s[o + 1], s[o + 2], s[o + 3]]) as u64;
            assert!(q == (c >> below) & ((1u64 << heights[l]) - 1), "leaf index of every level is the counter digit");
            l += 1;
        }
    }
    kani::cover!(r.is_ok() && c == (1u64 << total) - 1, "last signature released");
    kani::cover!(r.is_err(), "rejected update");
}

harness_lms_contract! { fn c03_step_contract_h5_h10_h25() unwind 36 { step_contract::<HavocSum16>(&[0x54, 0x64, 0x94], &[5, 10, 25]) }}
harness_lms_contract! { fn c03_step_contract_h25_h5() unwind 36 { step_contract::<HavocSum16>(&[0x94, 0x54], &[25, 5]) }}
harness_lms_contract! { fn c03_step_contract_h20() unwind 36 { step_contract::<HavocSum16>(&[0x84], &[20]) }}
harness_lms_contract! { fn c03_step_contract_h15_h15_h15_h15() unwind 36 { step_contract::<HavocSum16>(&[0x74, 0x74, 0x74, 0x74], &[15, 15, 15, 15]) }}
harness_lms_contract! { fn c03_step_contract_8x_h5() unwind 36 { step_contract::<HavocSum16>(&[0x54; 8], &[5; 8]) }}

/// In-memory signing key over the LMS contract: SigningKey::try_sign must leave exactly the
/// successor the byte-level function hands to its callback (counter + 1, or the wiped key).
fn signing_key_entry_contract(param_bytes: &[u8], heights: &[u32]) {
    type H = HavocSum16;
    let levels = param_bytes.len();
    let mut total = 0u32;
    let mut l = 0;
    while l < levels { total += heights[l]; l += 1; }
    let mut key = [0xffu8; 32];
    let c: u64 = kani::any();
    kani::assume(c < (1u64 << total));
    key[..8].copy_from_slice(&c.to_be_bytes());
    key[8..8 + levels].copy_from_slice(param_bytes);
    let seed: [u8; 16] = kani::any();
    key[16..].copy_from_slice(&seed);
    let mut sk = SigningKey::<H>::from_bytes(&key).unwrap();
    let r = sk.try_sign(&[9u8, 9, 9]);
    assert!(r.is_ok(), "in-memory signing key always accepts its own update");
    let after = sk.as_slice();
    assert!(after.len() == 32, "key length unchanged");
    if c < (1u64 << total) - 1 {
        assert!(after[..8] == (c + 1).to_be_bytes(), "in-memory key advanced by one");
        let mut k = 8;
        while k < 32 { assert!(after[k] == key[k], "nothing but the counter changes"); k += 1; }
        assert!(sk.get_lifetime().ok() == Some((1u64 << total) - c - 1), "lifetime lowered by one");
    } else {
        let mut k = 0;
        while k < 8 { assert!(after[k] == 0, "wiped counter"); k += 1; }
        while k < 16 { assert!(after[k] == 0xff, "wiped parameters"); k += 1; }
        while k < 32 { assert!(after[k] == 0, "wiped seed"); k += 1; }
        assert!(sk.get_lifetime().is_err(), "exhausted key: lifetime query fails");
        assert!(sk.try_sign(&[1u8]).is_err(), "exhausted key refuses to sign");
    }
    kani::cover!(c == (1u64 << total) - 1, "last leaf");
    kani::cover!(c == 0, "fresh key");
}
harness_lms_contract! { fn c04_signing_key_entry_contract_h5() unwind 36 { signing_key_entry_contract(&[0x54], &[5]) }}
harness_lms_contract! { fn c04_signing_key_entry_contract_h10_h5() unwind 36 { signing_key_entry_contract(&[0x64, 0x54], &[10, 5]) }}

// ---- the same protocol / step / entry-point obligations over the "light" contracts (cheap) --------
harness_protocol! { fn c04_protocol_light_h20() unwind 36 { step_contract::<HavocSum16>(&[0x84], &[20]) }}
harness_protocol! { fn c04_protocol_light_h25_h5() unwind 36 { step_contract::<HavocSum16>(&[0x94, 0x54], &[25, 5]) }}
harness_protocol! { fn c04_protocol_light_h5_h10_h25() unwind 36 { step_contract::<HavocSum16>(&[0x54, 0x64, 0x94], &[5, 10, 25]) }}
harness_protocol! { fn c04_protocol_light_8x_h5() unwind 36 { step_contract::<HavocSum16>(&[0x54; 8], &[5; 8]) }}
harness_protocol! { fn c04_signing_key_entry_light_h5() unwind 36 { signing_key_entry_contract(&[0x54], &[5]) }}
harness_protocol! { fn c04_signing_key_entry_light_h10_h5() unwind 36 { signing_key_entry_contract(&[0x64, 0x54], &[10, 5]) }}

/// C03 step over the LMS-layer contract, without the protocol tail: expansion + HSS signing real.
/// The released structure carries on every level the digit of the input counter, every upper level
/// has been used exactly once more than its digit, and the expanded key refuses a second signature.
fn expand_and_sign(param_bytes: &[u8], heights: &[u32]) {
    use hbs_lms::verif_hooks::hss_definitions::HssPrivateKey;
    use hbs_lms::verif_hooks::hss_key::ReferenceImplPrivateKey;
    use hbs_lms::verif_hooks::hss_signing::HssSignature;
    type H = HavocSum16;
    let levels = param_bytes.len();
    let mut total = 0u32;
    let mut l = 0;
    while l < levels { total += heights[l]; l += 1; }
    let mut key = [0xffu8; 32];
    let c: u64 = kani::any();
    kani::assume(c < (1u64 << total));
    key[..8].copy_from_slice(&c.to_be_bytes());
    key[8..8 + levels].copy_from_slice(param_bytes);
    let seed: [u8; 16] = kani::any();
    key[16..].copy_from_slice(&seed);
    let rfc = ReferenceImplPrivateKey::<H>::from_binary_representation(&key).unwrap();
    let mut k = HssPrivateKey::<H>::from(&rfc, &mut None).unwrap();
    assert!(k.private_key.len() == levels && k.public_key.len() == levels - 1 && k.signatures.len() == levels - 1, "one key per level, one signed child per upper level");
    assert!(k.get_lifetime() == (1u64 << total) - c, "remaining lifetime = leaves - counter");
    let mut below = total;
    let mut l = 0;
    while l < levels {
        below -= heights[l];
        let digit = ((c >> below) & ((1u64 << heights[l]) - 1)) as u32;
        let want = if l + 1 < levels { digit + 1 } else { digit };
        assert!(k.private_key[l].used_leafs_index == want, "expansion: upper levels consumed exactly their current leaf, bottom level untouched");
        if l + 1 < levels {
            assert!(k.signatures[l].lms_leaf_identifier == digit.to_be_bytes(), "child key signed by the parent's current leaf");
        }
        l += 1;
    }
    let s = HssSignature::sign(&mut k, Some(&[1u8, 2]), None, &mut None).unwrap();
    assert!(s.level == levels - 1 && s.signed_public_keys.len() == levels - 1, "level count field and signed keys");
    let bottom = (c & ((1u64 << heights[levels - 1]) - 1)) as u32;
    assert!(s.signature.lms_leaf_identifier == bottom.to_be_bytes(), "message signed by the bottom tree's current leaf");
    assert!(k.private_key[levels - 1].used_leafs_index == bottom + 1, "bottom leaf consumed");
    assert!(HssSignature::sign(&mut k, Some(&[3u8]), None, &mut None).is_err(), "an expanded key refuses to sign twice");
    kani::cover!(c == (1u64 << total) - 1, "last counter");
}
harness_lms_contract! { fn c03_expand_and_sign_h25_h5() unwind 36 { expand_and_sign(&[0x94, 0x54], &[25, 5]) }}
harness_lms_contract! { fn c03_expand_and_sign_h5_h10_h25() unwind 36 { expand_and_sign(&[0x54, 0x64, 0x94], &[5, 10, 25]) }}
harness_lms_contract! { fn c03_expand_and_sign_h20() unwind 36 { expand_and_sign(&[0x84], &[20]) }}
