//! C04 — a signature is released only after the successor key was handed over and accepted.
//! (also serves C05 refusal, C11 totality of sign on arbitrary key bytes, C03 step)
use crate::models::*;
use crate::reference::ref_param_bytes;
use hbs_lms::signature::SignerMut;
use hbs_lms::{HashChain, SigningKey};

/// Real code, one level H2/W8 (type byte 0x14), symbolic counter over the whole lifetime, seed,
/// message, callback outcome. Natively replayable.
fn protocol_real<H: HashChain, const KL: usize>(levels: usize) {
    let mut key = [0xffu8; KL];
    let total = 2 * levels as u32;
    let c: u64 = kani::any();
    kani::assume(c < (1u64 << total));
    key[..8].copy_from_slice(&c.to_be_bytes());
    let mut l = 0;
    while l < levels { key[8 + l] = 0x14; l += 1; }
    let seed: [u8; 32] = kani::any();
    key[16..].copy_from_slice(&seed[..KL - 16]);
    let msg: [u8; 4] = kani::any();
    let mlen: usize = kani::any();
    kani::assume(mlen <= 4);
    let accept: bool = kani::any();
    let mut calls = 0u32;
    let mut arg = [0u8; KL];
    let mut arg_len = 0usize;
    let mut cb = |k: &[u8]| {
        calls += 1;
        arg_len = k.len();
        if k.len() == KL { arg.copy_from_slice(k); }
        if accept { Ok(()) } else { Err(()) }
    };
    let r = hbs_lms::sign::<H>(&msg[..mlen], &key, &mut cb, None);
    assert!(calls == 1, "callback invoked exactly once for a usable key");
    assert!(r.is_ok() == accept, "signature released iff the callback accepted the successor key");
    assert!(arg_len == KL, "callback receives a complete key blob");
    if c < (1u64 << total) - 1 {
        assert!(arg[..8] == (c + 1).to_be_bytes(), "successor counter is c + 1");
        let mut k = 8;
        while k < KL { assert!(arg[k] == key[k], "successor differs only in the counter"); k += 1; }
    } else {
        let mut k = 0;
        while k < 8 { assert!(arg[k] == 0, "last leaf: wiped counter"); k += 1; }
        while k < 16 { assert!(arg[k] == 0xff, "last leaf: wiped parameters"); k += 1; }
        while k < KL { assert!(arg[k] == 0, "last leaf: wiped seed"); k += 1; }
    }
    if let Ok(sig) = &r {
        // C03 step: the released signature's leaf fields are the digits of the *input* counter
        let s: &[u8] = sig.as_ref();
        assert!(s[..4] == ((levels - 1) as u32).to_be_bytes(), "level count field");
        let q0 = u32::from_be_bytes([s[4], s[5], s[6], s[7]]) as u64;
        assert!(q0 == (c >> (total - 2)), "top-level leaf index is the top digit of the counter");
    }
    kani::cover!(r.is_ok(), "accepted path reachable");
    kani::cover!(r.is_err(), "rejected path reachable");
    kani::cover!(c == (1u64 << total) - 1, "last leaf reachable");
}

harness! { fn c04_protocol_real_h2w8_l1() unwind 36 { protocol_real::<HavocSum16, 32>(1) }}
harness! { fn c04_protocol_real_h2w8_l2() unwind 36 { protocol_real::<HavocSum16, 32>(2) }}

/// SigningKey entry point: the in-memory key advances iff a signature is returned.
harness! { fn c04_signing_key_entry_h2w8_l1() unwind 36 {
    let mut key = [0xffu8; 32];
    let c: u64 = kani::any();
    kani::assume(c < 4);
    key[..8].copy_from_slice(&c.to_be_bytes());
    key[8] = 0x14;
    let seed: [u8; 16] = kani::any();
    key[16..].copy_from_slice(&seed);
    let mut sk = SigningKey::<HavocSum16>::from_bytes(&key).unwrap();
    let life_before = sk.get_lifetime();
    assert!(life_before.ok() == Some(4 - c), "remaining lifetime = leaves - counter");
    let msg: [u8; 3] = kani::any();
    let r = sk.try_sign(&msg);
    assert!(r.is_ok(), "in-memory signing key always accepts its own update");
    let after = sk.as_slice();
    assert!(after.len() == 32, "key length unchanged");
    if c < 3 {
        assert!(after[..8] == (c + 1).to_be_bytes(), "in-memory key advanced by one");
        assert!(sk.get_lifetime().ok() == Some(3 - c), "every released signature lowers the lifetime by one");
    } else {
        let mut k = 0;
        while k < 8 { assert!(after[k] == 0, "wiped counter"); k += 1; }
        while k < 16 { assert!(after[k] == 0xff, "wiped parameters"); k += 1; }
        while k < 32 { assert!(after[k] == 0, "wiped seed"); k += 1; }
        assert!(sk.get_lifetime().is_err(), "exhausted key: lifetime query fails");
        let r2 = sk.try_sign(&msg);
        assert!(r2.is_err(), "exhausted key refuses to sign");
        let mut k = 0;
        while k < 8 { assert!(sk.as_slice()[k] == 0, "refusal leaves the wiped key untouched"); k += 1; }
    }
    kani::cover!(c == 3, "last leaf");
    kani::cover!(c == 0, "fresh key");
}}

/// LMS layer by contract: every key byte string of every length 0..=40, every callback outcome.
fn protocol_contract<H: HashChain>(with_aux: bool) {
    const N: usize = 16;
    const KL: usize = 16 + N;
    let key: [u8; 40] = kani::any();
    let klen: usize = kani::any();
    kani::assume(klen <= 40);
    let msg: [u8; 2] = kani::any();
    let accept: bool = kani::any();
    let mut calls = 0u32;
    let mut arg = [0u8; 40];
    let mut arg_len = 0usize;
    let mut cb = |k: &[u8]| {
        calls += 1;
        arg_len = k.len();
        if k.len() <= 40 { arg[..k.len()].copy_from_slice(k); }
        if accept { Ok(()) } else { Err(()) }
    };
    let mut aux_store: [u8; 48] = kani::any();
    let alen: usize = kani::any();
    kani::assume(alen <= 48);
    let r = if with_aux {
        let mut aux_slice: &mut [u8] = &mut aux_store[..alen];
        hbs_lms::sign::<H>(&msg, &key[..klen], &mut cb, Some(&mut aux_slice))
    } else {
        hbs_lms::sign::<H>(&msg, &key[..klen], &mut cb, None)
    };
    assert!(calls <= 1, "callback never invoked more than once");
    if r.is_ok() { assert!(calls == 1 && accept, "a signature is released only after an accepted update"); }
    if calls == 1 { assert!(r.is_ok() == accept, "after the callback, success iff it accepted"); }
    let mut pb = [0u8; 8];
    if klen >= 16 { pb.copy_from_slice(&key[8..16]); }
    let shape = if klen == KL { ref_param_bytes(&pb, true) } else { None };
    let c = u64::from_be_bytes([key[0], key[1], key[2], key[3], key[4], key[5], key[6], key[7]]);
    match shape {
        None => {
            // wrong length, empty (wiped) or invalid parameter list: refused before anything happens
            assert!(r.is_err(), "malformed or wiped key is refused");
            assert!(calls == 0, "callback not invoked for a malformed or wiped key");
        }
        Some((levels, total)) => {
            if total <= 63 && c < (1u64 << total) {
                assert!(calls == 1, "usable key: exactly one update");
                assert!(arg_len == KL, "successor blob is complete");
                if c < (1u64 << total) - 1 {
                    assert!(arg[..8] == (c + 1).to_be_bytes(), "successor counter is c + 1");
                    let mut k = 8;
                    while k < KL { assert!(arg[k] == key[k], "successor differs only in the counter"); k += 1; }
                } else {
                    let mut k = 0;
                    while k < 8 { assert!(arg[k] == 0, "last leaf: wiped counter"); k += 1; }
                    while k < 16 { assert!(arg[k] == 0xff, "last leaf: wiped parameters"); k += 1; }
                    while k < KL { assert!(arg[k] == 0, "last leaf: wiped seed"); k += 1; }
                }
            }
        }
    }
    kani::cover!(r.is_ok(), "a signature is released for some key");
    kani::cover!(calls == 1 && r.is_err(), "rejected update reachable");
    kani::cover!(shape.is_none() && klen == KL, "invalid parameter byte reachable");
    kani::cover!(match shape { Some((l, _)) => l == 8, None => false }, "8-level key reachable");
}

harness_lms_contract! { fn c04_protocol_contract_any_key() unwind 36 { protocol_contract::<HavocSum16>(false) }}
harness_lms_contract! { fn c04_protocol_contract_any_key_aux() unwind 36 { protocol_contract::<HavocSum16>(true) }}
