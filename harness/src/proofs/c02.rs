//! C02 (structural half) / C06 (verify level) — every structural reason to reject is honoured.
//! Digests are havoc, so the final root comparison can always be made to succeed by the solver:
//! a missing structural check cannot hide behind a hash mismatch. Type codes of the *signature*
//! are assigned (shape fixed per harness), everything else is symbolic.
use crate::models::*;
use hbs_lms::signature::{Signature as _, Verifier};
use hbs_lms::{HashChain, Signature, VerifierSignature, VerifyingKey};

const N: usize = 16;
const P: usize = 18; // W8, n = 16
const HGT: usize = 5;
const OTS: usize = 4 + N + N * P; // 308
const LMS_SIG: usize = 4 + OTS + 4 + N * HGT; // 396
const LMS_PK: usize = 24 + N; // 40

#[derive(Clone, Copy)]
enum Entry { Function, KeyAndSignature, KeyAndRefSignature }

fn call<H: HashChain>(e: Entry, msg: &[u8], sig: &[u8], pk: &[u8]) -> bool {
    match e {
        Entry::Function => hbs_lms::verify::<H>(msg, sig, pk).is_ok(),
        Entry::KeyAndSignature => {
            let k = VerifyingKey::<H>::from_bytes(pk);
            let s = Signature::from_bytes(sig);
            match (k, s) { (Ok(k), Ok(s)) => k.verify(msg, &s).is_ok(), _ => false }
        }
        Entry::KeyAndRefSignature => {
            let k = VerifyingKey::<H>::from_bytes(pk);
            let s = VerifierSignature::from_ref(sig);
            match (k, s) { (Ok(k), Ok(s)) => k.verify(msg, &s).is_ok(), _ => false }
        }
    }
}

/// the parsed field is exactly this sub-slice of the input (same address, same length)
fn same(a: &[u8], b: &[u8]) -> bool { a.as_ptr() == b.as_ptr() && a.len() == b.len() }
fn be32(b: &[u8], o: usize) -> u32 { u32::from_be_bytes([b[o], b[o + 1], b[o + 2], b[o + 3]]) }

use hbs_lms::verif_hooks::hss_definitions::InMemoryHssPublicKey;
use hbs_lms::verif_hooks::hss_signing::{InMemoryHssSignature, InMemoryHssSignedPublicKey};
use hbs_lms::verif_hooks::lms_definitions::InMemoryLmsPublicKey;
use hbs_lms::verif_hooks::lms_signing::InMemoryLmsSignature;
use hbs_lms::verif_hooks::lmots_signing::InMemoryLmotsSignature;
use hbs_lms::{LmotsAlgorithm, LmsAlgorithm};
use tinyvec::ArrayVec;

type HS = HavocSum16;

/// arbitrary parsed LMS signature of the n=16 / W8 / H5 shape: symbolic leaf index, randomizer,
/// chain values and path (the parsers that produce these structures are the subject of the
/// c06_parse_* and c02_parse_agreement_* harnesses)
fn any_lms_sig<'a>(c: &'a [u8; N], y: &'a [u8; N * P], path: &'a [u8; N * HGT]) -> (InMemoryLmsSignature<'a, HS>, u32) {
    let q: u32 = kani::any();
    (InMemoryLmsSignature::<HS> {
        lms_leaf_identifier: q,
        lmots_signature: InMemoryLmotsSignature { signature_randomizer: c, signature_data: y, lmots_parameter: LmotsAlgorithm::LmotsW8.construct_parameter::<HS>().unwrap() },
        authentication_path: path,
        lms_parameter: LmsAlgorithm::LmsH5.construct_parameter::<HS>().unwrap(),
    }, q)
}

/// hss::verify::verify on a one-level signature structure against an arbitrary public key
/// (symbolic type codes, identifier, root) with concrete level counts per instance.
fn verify_structs_l1(sig_level: usize, pk_level: usize) {
    let (c, y, path): ([u8; N], [u8; N * P], [u8; N * HGT]) = (kani::any(), kani::any(), kani::any());
    let (lsig, q) = any_lms_sig(&c, &y, &path);
    let sig = InMemoryHssSignature::<HS> { level: sig_level, signed_public_keys: ArrayVec::new(), signature: lsig };
    let pkb: [u8; LMS_PK] = kani::any();
    if let Some(lpk) = InMemoryLmsPublicKey::<HS>::new(&pkb) {
        let pk = InMemoryHssPublicKey::<HS> { public_key: lpk, level: pk_level };
        let msg: [u8; 3] = kani::any();
        let ok = hbs_lms::verif_hooks::hss_verify::verify(&sig, &pk, &msg).is_ok();
        let structural = sig_level + 1 == pk_level && pk_level == 1 && be32(&pkb, 0) == 5 && be32(&pkb, 4) == 4 && q < 32;
        assert!(!ok || structural, "accepted only if level counts, type codes and leaf range are consistent (RFC 8554 6.3 / Alg. 6a)");
        let accepting = sig_level == 0 && pk_level == 1;
        kani::cover!(ok == accepting, "expected outcome reachable (acceptance iff the level counts match)");
        kani::cover!(!ok && (structural || !accepting), "rejection reachable");
    }
}
harness! { fn c02_verify_structs_l1() unwind 20 { verify_structs_l1(0, 1) }}
harness! { fn c02_verify_structs_l1_pk_level0() unwind 20 { verify_structs_l1(0, 0) }}
harness! { fn c02_verify_structs_l1_pk_level2() unwind 20 { verify_structs_l1(0, 2) }}

/// two levels: signature structure with one signed public key (symbolic child key bytes)
fn verify_structs_l2(pk_level: usize) {
    let (c1, y1, p1): ([u8; N], [u8; N * P], [u8; N * HGT]) = (kani::any(), kani::any(), kani::any());
    let (c2, y2, p2): ([u8; N], [u8; N * P], [u8; N * HGT]) = (kani::any(), kani::any(), kani::any());
    let (s1, q1) = any_lms_sig(&c1, &y1, &p1);
    let (s2, q2) = any_lms_sig(&c2, &y2, &p2);
    let cpk: [u8; LMS_PK] = kani::any();
    let pkb: [u8; LMS_PK] = kani::any();
    if let (Some(child), Some(top)) = (InMemoryLmsPublicKey::<HS>::new(&cpk), InMemoryLmsPublicKey::<HS>::new(&pkb)) {
        let mut spk = ArrayVec::new();
        spk.push(Some(InMemoryHssSignedPublicKey { sig: s1, public_key: child }));
        let sig = InMemoryHssSignature::<HS> { level: 1, signed_public_keys: spk, signature: s2 };
        let pk = InMemoryHssPublicKey::<HS> { public_key: top, level: pk_level };
        let msg: [u8; 3] = kani::any();
        let ok = hbs_lms::verif_hooks::hss_verify::verify(&sig, &pk, &msg).is_ok();
        let structural = pk_level == 2 && be32(&pkb, 0) == 5 && be32(&pkb, 4) == 4 && q1 < 32
            && be32(&cpk, 0) == 5 && be32(&cpk, 4) == 4 && q2 < 32;
        assert!(!ok || structural, "two levels: accepted only if level counts, every type code and both leaf ranges are consistent");
        kani::cover!(ok == (pk_level == 2), "expected outcome reachable (acceptance iff the level counts match)");
    }
}
harness! { fn c02_verify_structs_l2() unwind 20 { verify_structs_l2(2) }}
harness! { fn c02_verify_structs_l2_pk_level1() unwind 20 { verify_structs_l2(1) }}
harness! { fn c02_verify_structs_l2_pk_level3() unwind 20 { verify_structs_l2(3) }}

/// parser agreement: an exact-shape byte string (type codes assigned) parses into exactly the
/// fields RFC 8554 lays out, at the RFC's offsets; one byte more or less does not parse.
harness! { fn c02_parse_agreement_l1() unwind 8 {
    let mut sig: [u8; 4 + LMS_SIG + 1] = kani::any();
    sig[..4].copy_from_slice(&0u32.to_be_bytes());
    sig[8..12].copy_from_slice(&4u32.to_be_bytes());
    sig[8 + OTS..8 + OTS + 4].copy_from_slice(&5u32.to_be_bytes());
    let q = be32(&sig, 4);
    let r = InMemoryHssSignature::<HS>::new(&sig[..4 + LMS_SIG]);
    assert!(r.is_some() == (q < 32), "a well-formed one-level signature parses iff its leaf index is in range");
    if let Some(r) = r {
        assert!(r.level == 0 && r.signed_public_keys.len() == 0, "no signed public keys");
        assert!(r.signature.lms_leaf_identifier == q, "leaf index field");
        assert!(r.signature.lmots_signature.lmots_parameter.get_type_id() == 4 && r.signature.lms_parameter.get_type_id() == 5, "type codes");
        assert!(same(r.signature.lmots_signature.signature_randomizer, &sig[12..12 + N]), "randomizer C at offset 12");
        assert!(same(r.signature.lmots_signature.signature_data, &sig[12 + N..8 + OTS]), "chain values after C");
        assert!(same(r.signature.authentication_path, &sig[8 + OTS + 4..4 + LMS_SIG]), "path after the LMS type code");
    }
    assert!(InMemoryHssSignature::<HS>::new(&sig[..4 + LMS_SIG - 1]).is_none(), "one byte short: rejected");
    assert!(InMemoryHssSignature::<HS>::new(&sig[..4 + LMS_SIG + 1]).is_none(), "one byte long: rejected");
    let mut pk: [u8; 4 + LMS_PK + 1] = kani::any();
    pk[4..8].copy_from_slice(&5u32.to_be_bytes());
    pk[8..12].copy_from_slice(&4u32.to_be_bytes());
    let k = InMemoryHssPublicKey::<HS>::new(&pk[..4 + LMS_PK]);
    assert!(k.is_some(), "a well-formed public key parses");
    if let Some(k) = k {
        assert!(k.level == be32(&pk, 0) as usize, "level count field");
        assert!(same(k.public_key.lms_tree_identifier, &pk[12..28]) && same(k.public_key.key, &pk[28..4 + LMS_PK]), "identifier and root");
        assert!(same(k.public_key.as_slice(), &pk[4..4 + LMS_PK]), "serialised LMS public key is the bytes after the level count");
    }
    assert!(InMemoryHssPublicKey::<HS>::new(&pk[..4 + LMS_PK - 1]).is_none(), "public key one byte short: rejected");
    assert!(InMemoryHssPublicKey::<HS>::new(&pk[..4 + LMS_PK + 1]).is_none(), "public key one byte long: rejected");
    kani::cover!(q < 32, "parses");
}}

/// two-level exact shape parses (also with the maximum level count of a 2-level build, see C01/C14)
harness! { fn c02_parse_agreement_l2() unwind 8 {
    const L: usize = 4 + LMS_SIG + LMS_PK + LMS_SIG;
    let mut sig: [u8; L] = kani::any();
    sig[..4].copy_from_slice(&1u32.to_be_bytes());
    sig[8..12].copy_from_slice(&4u32.to_be_bytes());
    sig[8 + OTS..8 + OTS + 4].copy_from_slice(&5u32.to_be_bytes());
    let cpk = 4 + LMS_SIG;
    sig[cpk..cpk + 4].copy_from_slice(&5u32.to_be_bytes());
    sig[cpk + 4..cpk + 8].copy_from_slice(&4u32.to_be_bytes());
    let s2 = cpk + LMS_PK;
    sig[s2 + 4..s2 + 8].copy_from_slice(&4u32.to_be_bytes());
    sig[s2 + 4 + OTS..s2 + 4 + OTS + 4].copy_from_slice(&5u32.to_be_bytes());
    let (q1, q2) = (be32(&sig, 4), be32(&sig, s2));
    let r = InMemoryHssSignature::<HS>::new(&sig);
    assert!(r.is_some() == (q1 < 32 && q2 < 32), "a well-formed two-level signature parses iff both leaf indices are in range");
    if let Some(r) = r {
        assert!(r.level == 1 && r.signed_public_keys.len() == 1, "one signed public key");
        let spk = r.signed_public_keys[0].as_ref().unwrap();
        assert!(spk.sig.lms_leaf_identifier == q1 && r.signature.lms_leaf_identifier == q2, "leaf indices");
        assert!(same(spk.public_key.as_slice(), &sig[cpk..cpk + LMS_PK]), "embedded child public key bytes");
        assert!(same(r.signature.authentication_path, &sig[s2 + 4 + OTS + 4..L]), "bottom path");
    }
    kani::cover!(q1 < 32 && q2 < 32, "parses");
}}

