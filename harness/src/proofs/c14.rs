//! C14 — build-time limits only restrict: capacity arithmetic of the generated constants against
//! the documented configuration (read by the harness crate itself from the HBS_LMS_* environment).
use crate::models::*;
use crate::reference::*;
use hbs_lms::verif_hooks::constants::*;

/// every parameter list inside the configured per-level limits serialises into the fixed-capacity
/// buffers: the worst case of each level is its maximum height with its minimum Winternitz
/// parameter at n = 32
harness! { fn c14_capacities_cover_the_limits() unwind 20 {
    assert!(MAX_ALLOWED_HSS_LEVELS == CFG_LEVELS, "level limit as configured");
    let mut min_w = 8usize;
    let mut max_h = 0usize;
    let mut l = 0;
    while l < CFG_LEVELS {
        assert!(TREE_HEIGHTS[l] == CFG_HEIGHTS[l] && WINTERNITZ_PARAMETERS[l] == CFG_WINTERNITZ[l], "per-level limits as configured");
        if CFG_WINTERNITZ[l] < min_w { min_w = CFG_WINTERNITZ[l]; }
        if CFG_HEIGHTS[l] > max_h { max_h = CFG_HEIGHTS[l]; }
        l += 1;
    }
    let (_u, _v, _ls, pmax) = appendix_b(32, min_w);
    assert!(MAX_NUM_WINTERNITZ_CHAINS >= pmax, "chain containers hold the largest admissible chain count");
    assert!(MAX_TREE_HEIGHT >= max_h, "path containers hold the tallest admissible tree");
    assert!(MAX_LMS_SIGNATURE_LENGTH >= 12 + 32 * (pmax + 1) + 32 * max_h, "LMS signature buffer");
    // an HSS signature of L' <= L levels using every level's worst case
    let mut total = 4usize;
    let mut l = 0;
    while l < CFG_LEVELS {
        let (_u, _v, _ls, p) = appendix_b(32, CFG_WINTERNITZ[l]);
        let lms_sig = 12 + 32 * (p + 1) + 32 * CFG_HEIGHTS[l];
        // levels 0..l-1 contribute signature + child public key, level l is the bottom signature
        assert!(MAX_HSS_SIGNATURE_LENGTH >= total + lms_sig, "HSS signature buffer holds the worst case of every admissible level count");
        total += lms_sig + 56;
        l += 1;
    }
    assert!(REF_IMPL_MAX_PRIVATE_KEY_SIZE == 48, "private key blob is always 8 + 8 + 32 bytes at most");
    kani::cover!(true, "reached");
}}
