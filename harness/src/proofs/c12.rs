//! C12 — the Winternitz digit encoding is RFC-exact and domination-free.
//! D1 coef, D2 checksum bytes, D3 table vs Appendix-B formula, D4 checksum digits carry the whole sum.
//! (D5 = D1 ∧ D2 ∧ D4 ∧ two SMT side lemmas, see bin/smt_lemmas.py and DESIGN.md.)
use crate::models::*;
use crate::reference::{appendix_b, rfc_coef};
use hbs_lms::verif_hooks::coef::coef;
use hbs_lms::{HashChain, LmotsAlgorithm};

fn alg(w: usize) -> LmotsAlgorithm {
    match w {
        1 => LmotsAlgorithm::LmotsW1,
        2 => LmotsAlgorithm::LmotsW2,
        4 => LmotsAlgorithm::LmotsW4,
        _ => LmotsAlgorithm::LmotsW8,
    }
}

// ---- D1: coef == RFC coef for every byte string, every digit index, every w -------------------
macro_rules! d1 {
    ($name:ident, $w:expr) => {
        harness! { fn $name() unwind 2 {
            let s: [u8; 34] = kani::any();
            let i: u16 = kani::any();
            kani::assume((i as usize) < 34 * 8 / $w);
            let got = coef(&s, i, $w as u8);
            let want = rfc_coef(&s, i as usize, $w) as u64;
            assert!(got == want, "coef equals RFC 8554 coef");
            kani::cover!(got == (1u64 << $w) - 1, "maximal digit reachable");
            kani::cover!(i as usize == 34 * 8 / $w - 1, "last digit index reachable");
        }}
    };
}
d1!(c12_d1_coef_w1, 1);
d1!(c12_d1_coef_w2, 2);
d1!(c12_d1_coef_w4, 4);
d1!(c12_d1_coef_w8, 8);

// ---- D2: the two appended bytes are be16(sum(2^w-1-d_i) << ls) ---------------------------------
// ls is the value the library's own table holds (D3 compares that table with the formula), so a
// failure here is a fault of the summation/shift/serialisation code, not of the table.
fn d2<H: HashChain, const N: usize>(w: usize) {
    let q: [u8; N] = kani::any();
    let p = alg(w).construct_parameter::<H>().unwrap();
    let out = p.append_checksum_to(&q);
    let u = 8 * N / w;
    let mut s: u32 = 0;
    let mut i = 0;
    while i < u {
        s += ((1u32 << w) - 1) - rfc_coef(&q, i, w);
        i += 1;
    }
    let c = (s << p.get_checksum_left_shift()) as u16;
    assert!(out.len() == N + 2, "digest plus two checksum bytes");
    let mut k = 0;
    while k < N {
        assert!(out[k] == q[k], "digest bytes copied unchanged");
        k += 1;
    }
    assert!(out[N] == (c >> 8) as u8 && out[N + 1] == (c & 0xff) as u8, "checksum bytes are be16(sum << ls)");
    kani::cover!(s == 0, "zero checksum reachable");
    kani::cover!(s as usize == u * ((1 << w) - 1), "maximal checksum reachable");
}
macro_rules! d2h {
    ($name:ident, $h:ty, $n:expr, $w:expr, $unw:literal) => {
        harness! { fn $name() unwind $unw { d2::<$h, $n>($w) }}
    };
}
d2h!(c12_d2_checksum_n16_w1, Havoc16, 16, 1, 130);
d2h!(c12_d2_checksum_n16_w2, Havoc16, 16, 2, 66);
d2h!(c12_d2_checksum_n16_w4, Havoc16, 16, 4, 34);
d2h!(c12_d2_checksum_n16_w8, Havoc16, 16, 8, 34);
d2h!(c12_d2_checksum_n24_w1, Havoc24, 24, 1, 194);
d2h!(c12_d2_checksum_n24_w2, Havoc24, 24, 2, 98);
d2h!(c12_d2_checksum_n24_w4, Havoc24, 24, 4, 50);
d2h!(c12_d2_checksum_n24_w8, Havoc24, 24, 8, 34);
d2h!(c12_d2_checksum_n32_w1, Havoc32, 32, 1, 258);
d2h!(c12_d2_checksum_n32_w2, Havoc32, 32, 2, 130);
d2h!(c12_d2_checksum_n32_w4, Havoc32, 32, 4, 66);
d2h!(c12_d2_checksum_n32_w8, Havoc32, 32, 8, 34);

// ---- D3: table (p, ls, n, w, type id) against the Appendix-B formula ---------------------------
fn d3<H: HashChain>(n: usize, w: usize) {
    let (u, v, ls, p) = appendix_b(n, w);
    let par = alg(w).construct_parameter::<H>().unwrap();
    assert!(par.get_hash_function_output_size() == n, "n of the parameter set");
    assert!(par.get_winternitz() as usize == w, "w of the parameter set");
    assert!(par.get_num_winternitz_chains() as usize == p, "p = u + v (Appendix B)");
    assert!(par.get_checksum_left_shift() as usize == ls, "ls = 16 - v*w (Appendix B)");
    let ty = match w { 1 => 1, 2 => 2, 4 => 3, _ => 4 };
    assert!(par.get_type_id() == ty, "LM-OTS type code");
    assert!(hbs_lms::verif_hooks::constants::get_num_winternitz_chains(w, n) == p, "chain count table");
    // the typecode -> parameter lookup agrees with the enum constructor
    let by_code = LmotsAlgorithm::get_from_type::<H>(ty).unwrap();
    assert!(by_code == par, "get_from_type(type code) is the same parameter set");
}
macro_rules! d3h {
    ($name:ident, $h:ty, $n:expr, $w:expr) => {
        harness! { fn $name() unwind 20 { d3::<$h>($n, $w); kani::cover!(true, "reached"); }}
    };
}
d3h!(c12_d3_table_n16_w1, Havoc16, 16, 1);
d3h!(c12_d3_table_n16_w2, Havoc16, 16, 2);
d3h!(c12_d3_table_n16_w4, Havoc16, 16, 4);
d3h!(c12_d3_table_n16_w8, Havoc16, 16, 8);
d3h!(c12_d3_table_n24_w1, Havoc24, 24, 1);
d3h!(c12_d3_table_n24_w2, Havoc24, 24, 2);
d3h!(c12_d3_table_n24_w4, Havoc24, 24, 4);
d3h!(c12_d3_table_n24_w8, Havoc24, 24, 8);
d3h!(c12_d3_table_n32_w1, Havoc32, 32, 1);
d3h!(c12_d3_table_n32_w2, Havoc32, 32, 2);
d3h!(c12_d3_table_n32_w4, Havoc32, 32, 4);
d3h!(c12_d3_table_n32_w8, Havoc32, 32, 8);

// unknown LM-OTS type codes have no parameter set
harness! { fn c12_d3_unknown_type_codes() unwind 2 {
    let t: u32 = kani::any();
    kani::assume(t == 0 || t > 4);
    assert!(LmotsAlgorithm::get_from_type::<Havoc32>(t).is_none(), "unknown LM-OTS type code has no parameters");
    kani::cover!(t == 0x0e000001, "private-use code reachable");
}}

// ---- D4: the digits at positions u..p of be16(S << ls) recompose S for every attainable S ------
fn d4<H: HashChain, const N: usize>(w: usize) {
    let par = alg(w).construct_parameter::<H>().unwrap();
    let u = 8 * N / w;
    let p = par.get_num_winternitz_chains() as usize;
    let s: u16 = kani::any();
    kani::assume((s as usize) <= u * ((1 << w) - 1));
    let c = ((s as u32) << par.get_checksum_left_shift()) as u16;
    let mut buf = [0u8; 34];
    buf[N] = (c >> 8) as u8;
    buf[N + 1] = (c & 0xff) as u8;
    let mut acc: u32 = 0;
    let mut i = u;
    while i < p {
        acc = (acc << w) | coef(&buf, i as u16, w as u8) as u32;
        i += 1;
    }
    assert!(acc == s as u32, "checksum digits u..p carry the complete checksum value");
    kani::cover!(s as usize == u * ((1 << w) - 1), "maximal checksum reachable");
}
macro_rules! d4h {
    ($name:ident, $h:ty, $n:expr, $w:expr) => {
        harness! { fn $name() unwind 12 { d4::<$h, $n>($w) }}
    };
}
d4h!(c12_d4_cksm_digits_n16_w1, Havoc16, 16, 1);
d4h!(c12_d4_cksm_digits_n16_w2, Havoc16, 16, 2);
d4h!(c12_d4_cksm_digits_n16_w4, Havoc16, 16, 4);
d4h!(c12_d4_cksm_digits_n16_w8, Havoc16, 16, 8);
d4h!(c12_d4_cksm_digits_n24_w1, Havoc24, 24, 1);
d4h!(c12_d4_cksm_digits_n24_w2, Havoc24, 24, 2);
d4h!(c12_d4_cksm_digits_n24_w4, Havoc24, 24, 4);
d4h!(c12_d4_cksm_digits_n24_w8, Havoc24, 24, 8);
d4h!(c12_d4_cksm_digits_n32_w1, Havoc32, 32, 1);
d4h!(c12_d4_cksm_digits_n32_w2, Havoc32, 32, 2);
d4h!(c12_d4_cksm_digits_n32_w4, Havoc32, 32, 4);
d4h!(c12_d4_cksm_digits_n32_w8, Havoc32, 32, 8);
