//! C10 — auxiliary data is a transparent, authenticated cache: level selection arithmetic, layout,
//! and the exact MAC computation / comparison that guards every read-back.
use crate::models::*;
use hbs_lms::verif_hooks::hss_aux::*;
use hbs_lms::verif_hooks::hss_definitions::HssPrivateKey;
use hbs_lms::verif_hooks::hss_key::ReferenceImplPrivateKey;
use hbs_lms::{HashChain, HssParameter, LmotsAlgorithm, LmsAlgorithm, Seed};

fn q(k: usize) -> RecQuery { unsafe { REC.q[k] } }
fn nq() -> usize { unsafe { REC.nq } }
fn tape(k: usize) -> [u8; 32] { unsafe { REC.tape[k] } }
fn eq(a: &[u8], b: &[u8]) -> bool {
    if a.len() != b.len() { return false; }
    let mut i = 0;
    let mut r = true;
    while i < a.len() { if a[i] != b[i] { r = false; } i += 1; }
    r
}

/// reference for the level selection (hash-sigs hss_optimal_aux_level as transcribed in the
/// library): levels h0, h0-2, ... >= 1, greedily from the top while they fit; 4-byte level word
/// plus one MAC of n bytes; returns (level word, used length)
fn ref_levels(max_len: usize, h0: u32, n: usize) -> (u32, usize) {
    if max_len < 4 + n { return (0, 1); }
    let mut rest = max_len - (4 + n);
    let mut word = 0u32;
    let mut level = h0 as i32;
    while level >= 1 {
        let sz = n << level;
        if rest >= sz { rest -= sz; word |= 0x8000_0000 | (1u32 << level); }
        level -= 2;
    }
    (word, if word == 0 { 1 } else { max_len - rest })
}

fn level_selection<H: HashChain>(alg: LmsAlgorithm, h0: u32) {
    let n = H::OUTPUT_SIZE as usize;
    let par = alg.construct_parameter::<H>().unwrap();
    let max_len: usize = kani::any();
    kani::assume(max_len <= (1usize << 32));
    let mut actual = 0usize;
    let word = hss_optimal_aux_level(max_len, par, Some(&mut actual));
    let len = hss_get_aux_data_len(max_len, par);
    let (rw, rl) = ref_levels(max_len, h0, n);
    assert!(word == rw, "level word = marker bit | bit per cached level, levels h0, h0-2, ... taken greedily");
    assert!(len == rl, "used length = 4 + cached levels + MAC, or 1 when nothing fits");
    assert!(len <= max_len || max_len == 0, "never longer than the caller's buffer");
    kani::cover!(word != 0 && max_len > 100000, "large buffer");
    kani::cover!(word == 0, "too small buffer");
}
harness! { fn c10_level_selection_h5_n16() unwind 16 { level_selection::<Havoc16>(LmsAlgorithm::LmsH5, 5) }}
harness! { fn c10_level_selection_h10_n32() unwind 16 { level_selection::<Havoc32>(LmsAlgorithm::LmsH10, 10) }}
harness! { fn c10_level_selection_h15_n24() unwind 16 { level_selection::<Havoc24>(LmsAlgorithm::LmsH15, 15) }}
harness! { fn c10_level_selection_h20_n32() unwind 16 { level_selection::<Havoc32>(LmsAlgorithm::LmsH20, 20) }}
harness! { fn c10_level_selection_h25_n16() unwind 16 { level_selection::<Havoc16>(LmsAlgorithm::LmsH25, 25) }}

/// An in-use buffer is read back only after HMAC(key = H(0^20 | 0xfdfd | seed), level word | levels)
/// has been computed over exactly the level area and compared with exactly n trailing bytes.
/// Buffer: level word for levels {1, 3} of n = 16 (4 + 32 + 128 bytes) followed by `tail` bytes.
fn mac_guard(tail: usize) { mac_guard_levels::<{ 4 + (16 << 1) + (16 << 3) }, { 4 + (16 << 1) + (16 << 3) + 17 }>(tail, 1, 3) }

fn mac_guard_levels<const AREA: usize, const CAP: usize>(tail: usize, la: usize, lb: usize) {
    type H = Rec16;
    const N: usize = 16;
    rec_reset_symbolic();
    salt_symbolic();
    let mut buf: [u8; CAP] = kani::any();
    buf[..4].copy_from_slice(&(0x8000_0000u32 | (1 << la) | (1 << lb)).to_be_bytes());
    let seed: [u8; N] = kani::any();
    let area: [u8; AREA] = { let mut a = [0u8; AREA]; a.copy_from_slice(&buf[..AREA]); a };
    let mut tailb = [0u8; N];
    if tail >= N { tailb.copy_from_slice(&buf[AREA..AREA + N]); }
    let r = hss_expand_aux_data::<H>(Some(&mut buf[..AREA + tail]), Some(&seed));
    // transcript: key derivation, inner hash, outer hash
    assert!(nq() == 3, "three digests: MAC key, inner, outer");
    let k = q(0);
    let mut zeros = [0u8; 20];
    assert!(k.len == 22 + N && eq(&k.head[..20], &zeros) && k.head[20] == 0xfd && k.head[21] == 0xfd && eq(&k.head[22..22 + N], &seed), "MAC key = H(0^20 | D_DAUX | seed)");
    let key = tape(0);
    let inner = q(1);
    assert!(inner.len == 64 + AREA, "inner hash covers one pad block and exactly the level area");
    let mut j = 0;
    while j < 64 { let want = if j < N { key[j] ^ 0x36 } else { 0x36 }; assert!(inner.head[j] == want, "inner pad block: (key xor ipad) | ipad ..."); j += 1; }
    let mut ipad = [0x36u8; 64];
    let mut j = 0;
    while j < N { ipad[j] = key[j] ^ 0x36; j += 1; }
    assert!(eq(&inner.fp, &rec_fp(&[&ipad, &area])), "followed by the level word and every cached level, in buffer order");
    let outer = q(2);
    assert!(outer.len == 64 + N, "outer hash covers one pad block and the inner digest");
    let mut j = 0;
    while j < 64 { let want = if j < N { key[j] ^ 0x5c } else { 0x5c }; assert!(outer.head[j] == want, "outer pad block: (key xor opad) | opad ..."); j += 1; }
    let mut opad = [0x5cu8; 64];
    let mut j = 0;
    while j < N { opad[j] = key[j] ^ 0x5c; j += 1; }
    assert!(eq(&outer.fp, &rec_fp(&[&opad, &tape(1)[..N]])), "followed by the inner digest");
    let mac = tape(2);
    let trusted = r.is_some();
    let genuine = tail == N && eq(&tailb, &mac[..N]);
    assert!(trusted == genuine, "the buffer is read back iff its trailing n bytes equal the MAC over the level area");
    if let Some(x) = &r {
        assert!(x.level == (0x8000_0000u32 | (1 << la) | (1 << lb)), "level word");
        let mut l = 0;
        while l < 6 { assert!(x.data[l].is_some() == (l == la || l == lb), "exactly the announced levels are mapped"); l += 1; }
        assert!(x.data[la].as_ref().unwrap().len() == N << la && x.data[lb].as_ref().unwrap().len() == N << lb && x.hmac.len() == N, "level sizes n * 2^level, MAC n bytes");
    }
    kani::cover!(trusted || tail != N, "a genuine MAC is accepted");
    kani::cover!(!trusted, "a wrong MAC is rejected");
}
harness! { fn c10_mac_guard_exact_tail() unwind 70 { mac_guard(16) }}
harness! { fn c10_mac_guard_missing_tail() unwind 70 { mac_guard(0) }}
harness! { fn c10_mac_guard_short_tail() unwind 70 { mac_guard(15) }}
harness! { fn c10_mac_guard_long_tail() unwind 70 { mac_guard(17) }}
// even levels (top trees of height 10 / 20 cache levels 10, 8, 6, 4, 2)
harness! { fn c10_mac_guard_even_levels() unwind 70 { mac_guard_levels::<{ 4 + (16 << 2) + (16 << 4) }, { 4 + (16 << 2) + (16 << 4) + 17 }>(16, 2, 4) }}

/// totality of the read-back path on arbitrary small buffers: every content (every level word);
/// the length and the presence of a seed are concrete per instance (a symbolic length on top of the
/// symbolic level word did not finish in 30 minutes). No panic, never trusted without a MAC check.
fn expand_arbitrary(len: usize, with_seed: bool, sym_byte: usize) {
    type H = Havoc16;
    // the 4-byte level word: one byte symbolic per instance (byte 0 = marker and level bits 24..30,
    // byte 3 = levels 0..7), the others zero / marker only; every other buffer byte symbolic
    let mut buf: [u8; 40] = kani::any();
    let w: u8 = kani::any();
    if len >= 4 {
        buf[0] = if sym_byte == 0 { w } else { 0x80 };
        buf[1] = 0;
        buf[2] = 0;
        buf[3] = if sym_byte == 3 { w } else { 0 };
    }
    let seed: [u8; 16] = kani::any();
    let first = buf[0];
    let used = hss_is_aux_data_used(&buf[..len]);
    assert!(used == (len > 0 && first != 0), "in use iff there is a non-zero first byte");
    if len > 0 {
        let r = if with_seed { hss_expand_aux_data::<H>(Some(&mut buf[..len]), Some(&seed)) } else { hss_expand_aux_data::<H>(Some(&mut buf[..len]), None) };
        if first == 0 { assert!(r.is_none(), "marker 0: nothing to read back"); }
    }
    kani::cover!(used == (len > 0), "an in-use marker is reachable whenever the buffer is non-empty");
}
harness! { fn c10_expand_arbitrary_len40_seed() unwind 40 { expand_arbitrary(40, true, 0) }}
harness! { fn c10_expand_arbitrary_len40_noseed() unwind 40 { expand_arbitrary(40, false, 0) }}
harness! { fn c10_expand_arbitrary_len40_lowlevels() unwind 40 { expand_arbitrary(40, true, 3) }}
harness! { fn c10_expand_arbitrary_len3_seed() unwind 40 { expand_arbitrary(3, true, 0) }}
harness! { fn c10_expand_arbitrary_len4_seed() unwind 40 { expand_arbitrary(4, true, 0) }}
harness! { fn c10_expand_arbitrary_len1_noseed() unwind 40 { expand_arbitrary(1, false, 0) }}
harness! { fn c10_expand_arbitrary_len0() unwind 40 { expand_arbitrary(0, true, 0) }}
harness! { fn c10_expand_arbitrary_len8_noseed() unwind 28 { expand_arbitrary(8, false, 0) }}

/// level words with bits a real key can never produce (levels above 25, every bit set): concrete per
/// instance, every other byte symbolic; refused without a crash, with and without a seed
fn bogus_level_word(word: u32) {
    type H = Havoc16;
    let mut buf: [u8; 40] = kani::any();
    buf[..4].copy_from_slice(&word.to_be_bytes());
    let seed: [u8; 16] = kani::any();
    let with_seed: bool = kani::any();
    let r = if with_seed { hss_expand_aux_data::<H>(Some(&mut buf[..]), Some(&seed)) } else { hss_expand_aux_data::<H>(Some(&mut buf[..]), None) };
    // totality is the claim (no panic for level bits above the tallest tree); refusal only where the
    // announced levels cannot fit the buffer
    if word == 0xffff_ffff { assert!(r.is_none(), "a level word announcing more than the buffer holds is refused"); }
    kani::cover!(with_seed, "with seed");
    kani::cover!(!with_seed, "without seed");
}
harness! { fn c10_bogus_level_word_all_ones() unwind 40 { bogus_level_word(0xffff_ffff) }}
harness! { fn c10_bogus_level_word_bit26() unwind 40 { bogus_level_word(0x8400_0000) }}
harness! { fn c10_bogus_level_word_bit30() unwind 40 { bogus_level_word(0xc000_0002) }}

/// Fresh buffer path of key generation: marker, layout, and the MAC written by hss_finalize_aux_data
/// is the same HMAC over the same area (so what keygen writes is what the guard above accepts).
harness! { fn c10_fresh_buffer_layout_and_finalize() unwind 70 {
    type H = Rec16;
    const N: usize = 16;
    // top tree H5: levels 5, 3, 1 -> 4 + 32 + 128 + 512 + 16 = 692 bytes used; offer 700
    const AREA: usize = 4 + (N << 1) + (N << 3) + (N << 5);
    let mut store: [u8; 700] = kani::any();
    store[0] = 0; // not in use
    let seedb: [u8; N] = kani::any();
    let mut seed = Seed::<H>::default();
    seed.as_mut_slice().copy_from_slice(&seedb);
    let params = [HssParameter::<H>::new(LmotsAlgorithm::LmotsW8, LmsAlgorithm::LmsH5)];
    let sk = ReferenceImplPrivateKey::<H>::generate(&params, &seed).unwrap();
    let mut slice: &mut [u8] = &mut store[..];
    let used = hss_is_aux_data_used(slice);
    assert!(!used, "first byte 0 = fresh buffer");
    {
        let mut exp = HssPrivateKey::<H>::get_expanded_aux_data(Some(&mut slice), &sk, params[0].get_lms_parameter(), used);
        assert!(exp.is_some(), "a large enough fresh buffer is set up for caching");
        let x = exp.as_mut().unwrap();
        assert!(x.level == (0x8000_0000u32 | (1 << 1) | (1 << 3) | (1 << 5)), "levels 5, 3, 1 of a height-5 top tree");
        assert!(x.data[1].as_ref().unwrap().len() == N << 1 && x.data[3].as_ref().unwrap().len() == N << 3 && x.data[5].as_ref().unwrap().len() == N << 5, "level sizes");
        assert!(x.hmac.len() == N, "MAC slot of n bytes");
        rec_reset_symbolic();
        salt_symbolic();
        hss_finalize_aux_data::<H>(x, &seedb);
    }
    assert!(slice.len() == AREA + N, "the caller's slice is shrunk to the used length");
    assert!(slice[..4] == (0x8000_0000u32 | (1 << 1) | (1 << 3) | (1 << 5)).to_be_bytes(), "level word written at offset 0");
    assert!(nq() == 3, "MAC key, inner, outer");
    let key = tape(0);
    let mut ipad = [0x36u8; 64];
    let mut j = 0;
    while j < N { ipad[j] = key[j] ^ 0x36; j += 1; }
    let inner = q(1);
    assert!(inner.len == 64 + AREA && eq(&inner.fp, &rec_fp(&[&ipad, &slice[..AREA]])), "the written MAC covers the level word and every cached level");
    assert!(eq(&slice[AREA..], &tape(2)[..N]), "MAC stored in the trailing n bytes");
    kani::cover!(true, "reached");
}}
