//! C07 — byte-exact RFC 8554 signatures: tables/lengths and serialisation layout.
use crate::models::*;
use crate::reference::appendix_b;
use hbs_lms::verif_hooks::constants::*;
use hbs_lms::verif_hooks::lms_definitions::LmsPublicKey;
use hbs_lms::verif_hooks::lms_signing::LmsSignature;
use hbs_lms::verif_hooks::lmots_signing::LmotsSignature;
use hbs_lms::verif_hooks::hss_signing::{HssSignature, HssSignedPublicKey};
use hbs_lms::{HashChain, LmotsAlgorithm, LmsAlgorithm};
use tinyvec::ArrayVec;

/// every length function against the RFC formulas, for all 12 (n, w) and all heights
harness! { fn c07_length_tables() unwind 30 {
    let ns = [16usize, 24, 32];
    let ws = [1usize, 2, 4, 8];
    let hs = [2usize, 5, 10, 15, 20, 25];
    let mut a = 0;
    while a < 3 {
        let mut b = 0;
        while b < 4 {
            let (n, w) = (ns[a], ws[b]);
            let (_u, _v, _ls, p) = appendix_b(n, w);
            assert!(get_num_winternitz_chains(w, n) == p, "p = u + v");
            assert!(lmots_signature_length(n, p) == 4 + n * (p + 1), "LM-OTS signature length 4 + n(p+1)");
            assert!(lms_public_key_length(n) == 24 + n, "LMS public key length 24 + n");
            let mut c = 0;
            while c < 6 {
                let h = hs[c];
                assert!(lms_signature_length(n, p, h) == 12 + n * (p + 1) + n * h, "LMS signature length 12 + n(p+1) + n h");
                c += 1;
            }
            b += 1;
        }
        a += 1;
    }
    // LMS type codes and heights
    let codes = [(1u32, 2u8), (5, 5), (6, 10), (7, 15), (8, 20), (9, 25)];
    let mut k = 0;
    while k < 6 {
        let par = LmsAlgorithm::get_from_type::<Havoc32>(codes[k].0).unwrap();
        assert!(par.get_type_id() == codes[k].0 && par.get_tree_height() == codes[k].1, "LMS type code <-> height");
        assert!(par.number_of_lm_ots_keys() == 1usize << codes[k].1, "2^h leaves");
        k += 1;
    }
    let t: u32 = kani::any();
    kani::assume(t != 1 && (t < 5 || t > 9));
    assert!(LmsAlgorithm::get_from_type::<Havoc32>(t).is_none(), "unknown LMS type code");
    kani::cover!(true, "reached");
}}

fn node<const N: usize>() -> ArrayVec<[u8; 32]> {
    let d: [u8; 32] = kani::any();
    ArrayVec::from_array_len(d, N)
}

/// LMS public key serialisation: u32(lms type) || u32(ots type) || I || root
fn pk_layout<H: HashChain, const N: usize>(w: LmotsAlgorithm, wcode: u32, h: LmsAlgorithm, hcode: u32) {
    let mut pk: LmsPublicKey<H> = Default::default();
    pk.lmots_parameter = w.construct_parameter::<H>().unwrap();
    pk.lms_parameter = h.construct_parameter::<H>().unwrap();
    pk.lms_tree_identifier = kani::any();
    pk.key = node::<N>();
    let b = pk.to_binary_representation();
    assert!(b.len() == 24 + N, "public key length");
    assert!(b[..4] == hcode.to_be_bytes() && b[4..8] == wcode.to_be_bytes(), "type codes");
    let mut k = 0;
    while k < 16 { assert!(b[8 + k] == pk.lms_tree_identifier[k], "tree identifier"); k += 1; }
    let mut k = 0;
    while k < N { assert!(b[24 + k] == pk.key[k], "root"); k += 1; }
    kani::cover!(true, "reached");
}
harness! { fn c07_lms_public_key_layout_n16() unwind 34 { pk_layout::<Havoc16, 16>(LmotsAlgorithm::LmotsW8, 4, LmsAlgorithm::LmsH5, 5) }}
harness! { fn c07_lms_public_key_layout_n24() unwind 34 { pk_layout::<Havoc24, 24>(LmotsAlgorithm::LmotsW2, 2, LmsAlgorithm::LmsH15, 7) }}
harness! { fn c07_lms_public_key_layout_n32() unwind 34 { pk_layout::<Havoc32, 32>(LmotsAlgorithm::LmotsW1, 1, LmsAlgorithm::LmsH25, 9) }}

/// LMS signature serialisation with symbolic field contents and a small symbolic number of chain
/// values / path nodes: q || ots type || C || y[0..k) || lms type || path[0..m)
fn lms_sig_layout<H: HashChain, const N: usize>() {
    let mut s: LmsSignature<H> = Default::default();
    s.lms_leaf_identifier = kani::any();
    s.lmots_signature.lmots_parameter = LmotsAlgorithm::LmotsW8.construct_parameter::<H>().unwrap();
    s.lms_parameter = LmsAlgorithm::LmsH5.construct_parameter::<H>().unwrap();
    s.lmots_signature.signature_randomizer = node::<N>();
    // element counts are concrete: the serialiser is a loop over the elements
    let k: usize = 3;
    let mut i = 0;
    while i < 3 { s.lmots_signature.signature_data.push(node::<N>()); i += 1; }
    let m: usize = 2;
    let mut i = 0;
    while i < 2 { s.authentication_path.push(node::<N>()); i += 1; }
    let b = s.to_binary_representation();
    assert!(b.len() == 4 + 4 + N + k * N + 4 + m * N, "length = q + type + C + y + type + path");
    assert!(b[..4] == s.lms_leaf_identifier, "leaf index first");
    assert!(b[4..8] == 4u32.to_be_bytes(), "LM-OTS type code");
    let mut j = 0;
    while j < N { assert!(b[8 + j] == s.lmots_signature.signature_randomizer[j], "randomizer C"); j += 1; }
    let mut i = 0;
    while i < 3 {
        if i < k {
            let mut j = 0;
            while j < N { assert!(b[8 + N + i * N + j] == s.lmots_signature.signature_data[i][j], "chain value y[i] in order"); j += 1; }
        }
        i += 1;
    }
    let o = 8 + N + k * N;
    assert!(b[o..o + 4] == 5u32.to_be_bytes(), "LMS type code after the LM-OTS signature");
    let mut i = 0;
    while i < 2 {
        if i < m {
            let mut j = 0;
            while j < N { assert!(b[o + 4 + i * N + j] == s.authentication_path[i][j], "path node i in order"); j += 1; }
        }
        i += 1;
    }
    kani::cover!(true, "reached");
}
harness! { fn c07_lms_signature_layout_n16() unwind 66 { lms_sig_layout::<Havoc16, 16>() }}
harness! { fn c07_lms_signature_layout_n32() unwind 130 { lms_sig_layout::<Havoc32, 32>() }}
