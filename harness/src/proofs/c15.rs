//! C15 — the one fast-verify mechanism that is compiled without the feature gate: the cost
//! evaluation of a candidate digest (`fast_verify_eval_init` / `fast_verify_eval`).
//! For every digest Q: no panic, and the result is the sum of all p Winternitz digits of
//! Q || Cksm(Q) (the number of hash-chain steps the *signer* performs; the verifier performs
//! p*(2^w-1) minus that), i.e. candidates are ranked by the signature's real chain cost.
use crate::models::*;
use crate::reference::rfc_coef;
use hbs_lms::{HashChain, LmotsAlgorithm};

fn alg(w: usize) -> LmotsAlgorithm {
    match w { 1 => LmotsAlgorithm::LmotsW1, 2 => LmotsAlgorithm::LmotsW2, 4 => LmotsAlgorithm::LmotsW4, _ => LmotsAlgorithm::LmotsW8 }
}

fn eval<H: HashChain, const N: usize>(w: usize) {
    let q: [u8; N] = kani::any();
    let par = alg(w).construct_parameter::<H>().unwrap();
    let cached = par.fast_verify_eval_init();
    let got = par.fast_verify_eval(&q, &cached);
    // reference: digits of Q || Cksm(Q) with the parameter set's own p and ls (C12 relates those to the RFC)
    let full = par.append_checksum_to(&q);
    let p = par.get_num_winternitz_chains() as usize;
    let mut want: u32 = 0;
    let mut i = 0;
    while i < p {
        want += rfc_coef(full.as_slice(), i, w);
        i += 1;
    }
    assert!(got as u32 == want, "fast_verify_eval is the sum of all Winternitz digits of Q || Cksm(Q)");
    kani::cover!(got > 0, "non-zero cost reachable");
}
macro_rules! ev {
    ($name:ident, $h:ty, $n:expr, $w:expr, $unw:literal) => {
        harness! { fn $name() unwind $unw { eval::<$h, $n>($w) }}
    };
}
ev!(c15_eval_n16_w1, Havoc16, 16, 1, 140);
ev!(c15_eval_n16_w2, Havoc16, 16, 2, 72);
ev!(c15_eval_n16_w4, Havoc16, 16, 4, 38);
ev!(c15_eval_n16_w8, Havoc16, 16, 8, 34);
ev!(c15_eval_n24_w1, Havoc24, 24, 1, 204);
ev!(c15_eval_n24_w2, Havoc24, 24, 2, 104);
ev!(c15_eval_n24_w4, Havoc24, 24, 4, 54);
ev!(c15_eval_n24_w8, Havoc24, 24, 8, 34);
ev!(c15_eval_n32_w1, Havoc32, 32, 1, 268);
ev!(c15_eval_n32_w2, Havoc32, 32, 2, 136);
ev!(c15_eval_n32_w4, Havoc32, 32, 4, 70);
ev!(c15_eval_n32_w8, Havoc32, 32, 8, 36);
