//! C16 — secret-bearing values are wiped when zeroized and when dropped.
//! Real zeroize code (volatile writes, fences); only the empty asm barrier is stubbed and tinyvec's
//! Array::default is NOT stubbed here.
use crate::models::*;
use core::mem::ManuallyDrop;
use hbs_lms::verif_hooks::hss_key::*;
use hbs_lms::verif_hooks::lmots_definitions::LmotsPrivateKey;
use hbs_lms::verif_hooks::lms_definitions::LmsPrivateKey;
use hbs_lms::{HssParameter, LmotsAlgorithm, LmsAlgorithm, Seed};
use tinyvec::ArrayVec;
use zeroize::Zeroize;

type H = Havoc32; // n = 32: every byte of the 32-byte seed container is observable through as_slice()

#[cfg(kani)]
macro_rules! harness_real_zeroize {
    (fn $name:ident() unwind $unwind:literal $body:block) => {
        #[kani::proof]
        #[kani::unwind($unwind)]
        #[kani::stub(zeroize::optimization_barrier, crate::models::noop_barrier)]
        pub fn $name() $body
    };
}
#[cfg(not(kani))]
macro_rules! harness_real_zeroize {
    (fn $name:ident() unwind $unwind:literal $body:block) => {
        pub fn $name() $body
    };
}

fn any_seed() -> Seed<H> {
    let raw: [u8; 32] = kani::any();
    Seed::<H>::from(raw)
}
fn seed_is_zero(s: &Seed<H>) -> bool {
    let b = s.as_slice();
    let mut k = 0;
    let mut z = b.len() == 32;
    while k < 32 { if b[k] != 0 { z = false; } k += 1; }
    z
}
fn id_is_zero(i: &[u8; 16]) -> bool {
    let mut k = 0;
    let mut z = true;
    while k < 16 { if i[k] != 0 { z = false; } k += 1; }
    z
}

harness_real_zeroize! { fn c16_seed_zeroize_and_drop() unwind 40 {
    let mut s = any_seed();
    kani::cover!(!seed_is_zero(&s), "non-zero seed before the wipe");
    s.zeroize();
    assert!(seed_is_zero(&s), "Seed::zeroize clears every seed byte");
    let mut m = ManuallyDrop::new(any_seed());
    unsafe { ManuallyDrop::drop(&mut m); }
    assert!(seed_is_zero(&m), "dropping a Seed clears every seed byte");
}}

harness_real_zeroize! { fn c16_seed_and_identifier_zeroize_and_drop() unwind 40 {
    let i: [u8; 16] = kani::any();
    let mut s = SeedAndLmsTreeIdentifier::<H>::new(&any_seed(), &i);
    s.zeroize();
    assert!(seed_is_zero(&s.seed) && id_is_zero(&s.lms_tree_identifier), "SeedAndLmsTreeIdentifier::zeroize clears seed and identifier");
    let mut m = ManuallyDrop::new(SeedAndLmsTreeIdentifier::<H>::new(&any_seed(), &i));
    kani::cover!(!seed_is_zero(&m.seed), "non-zero seed before the drop");
    unsafe { ManuallyDrop::drop(&mut m); }
    assert!(seed_is_zero(&m.seed) && id_is_zero(&m.lms_tree_identifier), "dropping SeedAndLmsTreeIdentifier clears seed and identifier");
}}

fn any_ref_key() -> ReferenceImplPrivateKey<H> {
    let params = [HssParameter::<H>::new(LmotsAlgorithm::LmotsW8, LmsAlgorithm::LmsH5),
                  HssParameter::<H>::new(LmotsAlgorithm::LmotsW8, LmsAlgorithm::LmsH10)];
    let mut k = ReferenceImplPrivateKey::<H>::generate(&params, &any_seed()).unwrap();
    k.compressed_used_leafs_indexes = CompressedUsedLeafsIndexes::new(kani::any());
    k
}
fn ref_key_is_wiped(k: &ReferenceImplPrivateKey<H>) -> bool {
    // zeroize() of the derive clears the counter, the parameter bytes (to 0) and the seed
    let b = k.to_binary_representation();
    let mut z = b.len() == 48;
    let mut i = 0;
    while i < 48 { if b[i] != 0 { z = false; } i += 1; }
    z
}
harness_real_zeroize! { fn c16_reference_private_key_zeroize_and_drop() unwind 52 {
    let mut k = any_ref_key();
    kani::cover!(!seed_is_zero(&k.seed), "non-zero seed before the wipe");
    k.zeroize();
    assert!(ref_key_is_wiped(&k), "ReferenceImplPrivateKey::zeroize clears counter, parameters and seed");
    let mut m = ManuallyDrop::new(any_ref_key());
    unsafe { ManuallyDrop::drop(&mut m); }
    assert!(ref_key_is_wiped(&m), "dropping ReferenceImplPrivateKey clears counter, parameters and seed");
}}

fn any_lms_key() -> LmsPrivateKey<H> {
    LmsPrivateKey::new(any_seed(), kani::any(), kani::any(),
        LmotsAlgorithm::LmotsW8.construct_parameter::<H>().unwrap(),
        LmsAlgorithm::LmsH5.construct_parameter::<H>().unwrap())
}
harness_real_zeroize! { fn c16_lms_private_key_zeroize_and_drop() unwind 40 {
    let mut k = any_lms_key();
    k.zeroize();
    assert!(seed_is_zero(&k.seed) && id_is_zero(&k.lms_tree_identifier) && k.used_leafs_index == 0, "LmsPrivateKey::zeroize clears seed, identifier and leaf index");
    let mut m = ManuallyDrop::new(any_lms_key());
    kani::cover!(!seed_is_zero(&m.seed) && m.used_leafs_index != 0, "populated key before the drop");
    unsafe { ManuallyDrop::drop(&mut m); }
    assert!(seed_is_zero(&m.seed) && id_is_zero(&m.lms_tree_identifier) && m.used_leafs_index == 0, "dropping LmsPrivateKey clears seed, identifier and leaf index");
}}

const CAP: usize = hbs_lms::verif_hooks::constants::MAX_NUM_WINTERNITZ_CHAINS;

fn any_ots_key() -> LmotsPrivateKey<H> {
    // every slot of the chain-value container populated with arbitrary secret bytes
    let mut key: ArrayVec<[ArrayVec<[u8; 32]>; CAP]> = ArrayVec::new();
    let mut i = 0;
    while i < CAP {
        let d: [u8; 32] = kani::any();
        key.push(ArrayVec::from_array_len(d, 32));
        i += 1;
    }
    LmotsPrivateKey::new(kani::any(), kani::any(), key, LmotsAlgorithm::LmotsW8.construct_parameter::<H>().unwrap())
}
fn ots_key_is_wiped(k: &LmotsPrivateKey<H>) -> bool {
    let mut z = id_is_zero(&k.lms_tree_identifier) && k.lms_leaf_identifier == [0u8; 4];
    // the whole backing store, not only the first `len` elements
    let slots: [ArrayVec<[u8; 32]>; CAP] = k.key.0.into_inner();
    let mut i = 0;
    while i < CAP {
        let bytes: [u8; 32] = slots[i].into_inner();
        let mut j = 0;
        while j < 32 { if bytes[j] != 0 { z = false; } j += 1; }
        i += 1;
    }
    z
}
harness_real_zeroize! { fn c16_lmots_private_key_zeroize() unwind 40 {
    let mut k = any_ots_key();
    kani::cover!(!ots_key_is_wiped(&k), "populated one-time key before the wipe");
    k.zeroize();
    assert!(ots_key_is_wiped(&k), "LmotsPrivateKey::zeroize clears identifier, leaf index and every chain value up to capacity");
}}
harness_real_zeroize! { fn c16_lmots_private_key_drop() unwind 40 {
    let mut m = ManuallyDrop::new(any_ots_key());
    kani::cover!(!ots_key_is_wiped(&m), "populated one-time key before the drop");
    unsafe { ManuallyDrop::drop(&mut m); }
    assert!(ots_key_is_wiped(&m), "dropping LmotsPrivateKey clears identifier, leaf index and every chain value up to capacity");
}}
