//! Independent reference models (RFC 8554 Appendix B parameters, mixed-radix counter rule, ...).
//! Uses nothing from hbs_lms but the `HashChain` trait.

/// RFC 8554 Appendix B: (u, v, ls, p) for hash length n (bytes) and Winternitz parameter w.
pub const fn appendix_b(n: usize, w: usize) -> (usize, usize, usize, usize) {
    let u = 8 * n / w;
    // floor(log2(u * (2^w - 1)))
    let max = u * ((1usize << w) - 1);
    let mut lg = 0usize;
    while (1usize << (lg + 1)) <= max {
        lg += 1;
    }
    let v = (lg + 1 + w - 1) / w;
    let ls = 16 - v * w;
    (u, v, ls, u + v)
}

/// RFC 8554 section 3.1.3 `coef(S, i, w)`.
#[inline(always)]
pub fn rfc_coef(s: &[u8], i: usize, w: usize) -> u32 {
    let per = 8 / w;
    let byte = s[i / per] as u32;
    let shift = w * (per - 1 - (i % per));
    (byte >> shift) & ((1u32 << w) - 1)
}

/// hash-sigs private key parameter bytes: (height code << 4) | winternitz code, 0xff terminates.
/// Returns (levels, total height) or None for an empty / invalid list. `hook_h2` admits the 4-leaf
/// test height (LMS type 1) that exists only under --cfg hbs_lms_verif.
pub fn ref_param_bytes(pb: &[u8; 8], hook_h2: bool) -> Option<(usize, u32)> {
    let mut levels = 0usize;
    let mut total = 0u32;
    let mut i = 0;
    while i < 8 {
        let b = pb[i];
        if b == 0xff {
            break;
        }
        let h = match b >> 4 {
            1 if hook_h2 => 2,
            5 => 5,
            6 => 10,
            7 => 15,
            8 => 20,
            9 => 25,
            _ => return None,
        };
        let w = b & 0x0f;
        if w < 1 || w > 4 {
            return None;
        }
        levels += 1;
        total += h;
        i += 1;
    }
    if levels == 0 {
        None
    } else {
        Some((levels, total))
    }
}

// ---- build configuration as documented (HBS_LMS_* environment), read by the harness crate itself --
const fn parse_list(s: Option<&str>, default: usize) -> ([usize; 8], usize) {
    let mut out = [default; 8];
    let mut n = 0usize;
    match s {
        None => (out, 8),
        Some(s) => {
            let b = s.as_bytes();
            let mut i = 0;
            let mut cur = 0usize;
            let mut have = false;
            while i < b.len() {
                let c = b[i];
                if c >= b'0' && c <= b'9' {
                    cur = cur * 10 + (c - b'0') as usize;
                    have = true;
                } else if have {
                    out[n] = cur;
                    n += 1;
                    cur = 0;
                    have = false;
                }
                i += 1;
            }
            if have {
                out[n] = cur;
                n += 1;
            }
            (out, n)
        }
    }
}
/// configured maximum number of HSS levels
pub const CFG_LEVELS: usize = match option_env!("HBS_LMS_MAX_ALLOWED_HSS_LEVELS") {
    None => 8,
    Some(s) => parse_list(Some(s), 8).0[0],
};
/// configured maximum tree height per level
pub const CFG_HEIGHTS: [usize; 8] = parse_list(option_env!("HBS_LMS_TREE_HEIGHTS"), 25).0;
/// configured minimum Winternitz parameter per level
pub const CFG_WINTERNITZ: [usize; 8] = parse_list(option_env!("HBS_LMS_WINTERNITZ_PARAMETERS"), 1).0;

/// As `ref_param_bytes`, restricted to what the documented build configuration admits:
/// at most CFG_LEVELS levels, height <= CFG_HEIGHTS[level], w >= CFG_WINTERNITZ[level].
pub fn ref_param_bytes_cfg(pb: &[u8; 8], hook_h2: bool) -> Option<(usize, u32)> {
    let mut levels = 0usize;
    let mut total = 0u32;
    let mut i = 0;
    while i < 8 {
        let b = pb[i];
        if b == 0xff {
            // the library reads only CFG_LEVELS parameter bytes and requires the rest to be unused
            let mut j = i;
            while j < 8 {
                if j >= CFG_LEVELS && pb[j] != 0xff {
                    return None;
                }
                j += 1;
            }
            break;
        }
        if i >= CFG_LEVELS {
            return None;
        }
        let h = match b >> 4 {
            1 if hook_h2 => 2,
            5 => 5,
            6 => 10,
            7 => 15,
            8 => 20,
            9 => 25,
            _ => return None,
        };
        let w = match b & 0x0f {
            1 => 1,
            2 => 2,
            3 => 4,
            4 => 8,
            _ => return None,
        };
        if h as usize > CFG_HEIGHTS[i] || w < CFG_WINTERNITZ[i] {
            return None;
        }
        levels += 1;
        total += h;
        i += 1;
    }
    if levels == 0 {
        None
    } else {
        Some((levels, total))
    }
}
