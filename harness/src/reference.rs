//! Independent reference models (RFC 8554 Appendix B parameters, mixed-radix counter rule, ...).
//! Uses nothing from hbs_lms but the `HashChain` trait.

/// RFC 8554 Appendix B: (u, v, ls, p) for hash length n (bytes) and Winternitz parameter w.
pub const fn appendix_b(n: usize, w: usize) -> (usize, usize, usize, usize) {
    let u = 8 * n / w;
    // floor(log2(u * (2^w - 1)))
    let max = u * ((1usize << w) - 1);
    let mut lg = 0usize;
    while (1usize << (lg + 1)) <= max {
        lg += 1;
    }
    let v = (lg + 1 + w - 1) / w;
    let ls = 16 - v * w;
    (u, v, ls, u + v)
}

/// RFC 8554 section 3.1.3 `coef(S, i, w)`.
#[inline(always)]
pub fn rfc_coef(s: &[u8], i: usize, w: usize) -> u32 {
    let per = 8 / w;
    let byte = s[i / per] as u32;
    let shift = w * (per - 1 - (i % per));
    (byte >> shift) & ((1u32 << w) - 1)
}

/// hash-sigs private key parameter bytes: (height code << 4) | winternitz code, 0xff terminates.
/// Returns (levels, total height) or None for an empty / invalid list. `hook_h2` admits the 4-leaf
/// test height (LMS type 1) that exists only under --cfg hbs_lms_verif.
pub fn ref_param_bytes(pb: &[u8; 8], hook_h2: bool) -> Option<(usize, u32)> {
    let mut levels = 0usize;
    let mut total = 0u32;
    let mut i = 0;
    while i < 8 {
        let b = pb[i];
        if b == 0xff {
            break;
        }
        let h = match b >> 4 {
            1 if hook_h2 => 2,
            5 => 5,
            6 => 10,
            7 => 15,
            8 => 20,
            9 => 25,
            _ => return None,
        };
        let w = b & 0x0f;
        if w < 1 || w > 4 {
            return None;
        }
        levels += 1;
        total += h;
        i += 1;
    }
    if levels == 0 {
        None
    } else {
        Some((levels, total))
    }
}
