//! Layer contracts substituted with `#[kani::stub]` where the layer below is out of reach for
//! symbolic shapes (tall trees). Each contract keeps exactly the state effect of the function it
//! replaces (which leaf is consumed, which identifiers are carried) and havocs the hash values.
//! They are validated against the real functions by the harnesses in proofs/c01.rs (LMS layer).
use hbs_lms::verif_hooks::hss_aux::MutableExpandedAuxData;
use hbs_lms::verif_hooks::hss_key::SeedAndLmsTreeIdentifier;
use hbs_lms::verif_hooks::lms::LmsKeyPair;
use hbs_lms::verif_hooks::lms_definitions::{LmsPrivateKey, LmsPublicKey};
use hbs_lms::verif_hooks::lms_signing::LmsSignature;
use hbs_lms::{HashChain, HssParameter};
use tinyvec::ArrayVec;

/// contract of `lms::generate_key_pair`: private key carries (seed, I, q, parameters); the public
/// key carries (I, parameters) and an arbitrary root (one digest of the model hasher).
pub fn model_generate_key_pair<H: HashChain>(
    seed: &SeedAndLmsTreeIdentifier<H>,
    parameter: &HssParameter<H>,
    used_leafs_index: &u32,
    _aux: &mut Option<MutableExpandedAuxData>,
) -> LmsKeyPair<H> {
    let private_key = LmsPrivateKey::new(
        seed.seed.clone(),
        seed.lms_tree_identifier,
        *used_leafs_index,
        *parameter.get_lmots_parameter(),
        *parameter.get_lms_parameter(),
    );
    let mut public_key: LmsPublicKey<H> = Default::default();
    public_key.lms_tree_identifier = seed.lms_tree_identifier;
    public_key.lmots_parameter = *parameter.get_lmots_parameter();
    public_key.lms_parameter = *parameter.get_lms_parameter();
    public_key.key = H::default().finalize();
    LmsKeyPair { private_key, public_key }
}

/// contract of `LmsSignature::sign`: refuses beyond the last leaf, otherwise consumes exactly one
/// leaf and returns a signature carrying that leaf index and the LMS parameters (no hash values).
pub fn model_lms_sign<H: HashChain>(
    lms_private_key: &mut LmsPrivateKey<H>,
    _message: &[u8],
    signature_randomizer: &ArrayVec<[u8; 32]>,
    _aux: &mut Option<MutableExpandedAuxData>,
) -> Result<LmsSignature<H>, ()> {
    let n = lms_private_key.lms_parameter.number_of_lm_ots_keys();
    if lms_private_key.used_leafs_index as usize >= n {
        return Err(());
    }
    let mut s: LmsSignature<H> = Default::default();
    s.lms_leaf_identifier = lms_private_key.used_leafs_index.to_be_bytes();
    s.lms_parameter = lms_private_key.lms_parameter;
    s.lmots_signature.lmots_parameter = lms_private_key.lmots_parameter;
    s.lmots_signature.signature_randomizer = *signature_randomizer;
    lms_private_key.used_leafs_index += 1;
    Ok(s)
}

/// "expansion fails" contract of `HssPrivateKey::from`: used where only the paths *before* the
/// expansion are the subject (malformed key bytes); every path that reaches the expansion ends
/// in an error here, so "signing fails for another reason" is exercised as well.
pub fn model_from_fails<H: HashChain>(
    _private_key: &hbs_lms::verif_hooks::hss_key::ReferenceImplPrivateKey<H>,
    _aux: &mut Option<MutableExpandedAuxData>,
) -> Result<hbs_lms::verif_hooks::hss_definitions::HssPrivateKey<H>, ()> {
    Err(())
}

/// "signing fails" contract of `HssSignature::sign`.
pub fn model_hss_sign_fails<H: HashChain>(
    _private_key: &mut hbs_lms::verif_hooks::hss_definitions::HssPrivateKey<H>,
    _message: Option<&[u8]>,
    _message_mut: Option<&mut [u8]>,
    _aux: &mut Option<MutableExpandedAuxData>,
) -> Result<hbs_lms::verif_hooks::hss_signing::HssSignature<H>, ()> {
    Err(())
}
