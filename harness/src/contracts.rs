//! Layer contracts substituted with `#[kani::stub]` where the layer below is out of reach for
//! symbolic shapes (tall trees). Each contract keeps exactly the state effect of the function it
//! replaces (which leaf is consumed, which identifiers are carried) and havocs the hash values.
//! They are validated against the real functions by the harnesses in proofs/c01.rs (LMS layer).
use hbs_lms::verif_hooks::hss_aux::MutableExpandedAuxData;
use hbs_lms::verif_hooks::hss_key::SeedAndLmsTreeIdentifier;
use hbs_lms::verif_hooks::lms::LmsKeyPair;
use hbs_lms::verif_hooks::lms_definitions::{LmsPrivateKey, LmsPublicKey};
use hbs_lms::verif_hooks::lms_signing::LmsSignature;
use hbs_lms::{HashChain, HssParameter};
use tinyvec::ArrayVec;

/// contract of `lms::generate_key_pair`: private key carries (seed, I, q, parameters); the public
/// key carries (I, parameters) and an arbitrary root (one digest of the model hasher).
pub fn model_generate_key_pair<H: HashChain>(
    seed: &SeedAndLmsTreeIdentifier<H>,
    parameter: &HssParameter<H>,
    used_leafs_index: &u32,
    _aux: &mut Option<MutableExpandedAuxData>,
) -> LmsKeyPair<H> {
    let private_key = LmsPrivateKey::new(
        seed.seed.clone(),
        seed.lms_tree_identifier,
        *used_leafs_index,
        *parameter.get_lmots_parameter(),
        *parameter.get_lms_parameter(),
    );
    let mut public_key: LmsPublicKey<H> = Default::default();
    public_key.lms_tree_identifier = seed.lms_tree_identifier;
    public_key.lmots_parameter = *parameter.get_lmots_parameter();
    public_key.lms_parameter = *parameter.get_lms_parameter();
    public_key.key = H::default().finalize();
    LmsKeyPair { private_key, public_key }
}

/// contract of `LmsSignature::sign`: refuses beyond the last leaf, otherwise consumes exactly one
/// leaf and returns a signature carrying that leaf index and the LMS parameters (no hash values).
pub fn model_lms_sign<H: HashChain>(
    lms_private_key: &mut LmsPrivateKey<H>,
    _message: &[u8],
    signature_randomizer: &ArrayVec<[u8; 32]>,
    _aux: &mut Option<MutableExpandedAuxData>,
) -> Result<LmsSignature<H>, ()> {
    let n = lms_private_key.lms_parameter.number_of_lm_ots_keys();
    if lms_private_key.used_leafs_index as usize >= n {
        return Err(());
    }
    let mut s: LmsSignature<H> = Default::default();
    s.lms_leaf_identifier = lms_private_key.used_leafs_index.to_be_bytes();
    s.lms_parameter = lms_private_key.lms_parameter;
    s.lmots_signature.lmots_parameter = lms_private_key.lmots_parameter;
    s.lmots_signature.signature_randomizer = *signature_randomizer;
    lms_private_key.used_leafs_index += 1;
    Ok(s)
}

/// "expansion fails" contract of `HssPrivateKey::from`: used where only the paths *before* the
/// expansion are the subject (malformed key bytes); every path that reaches the expansion ends
/// in an error here, so "signing fails for another reason" is exercised as well.
pub fn model_from_fails<H: HashChain>(
    _private_key: &hbs_lms::verif_hooks::hss_key::ReferenceImplPrivateKey<H>,
    _aux: &mut Option<MutableExpandedAuxData>,
) -> Result<hbs_lms::verif_hooks::hss_definitions::HssPrivateKey<H>, ()> {
    Err(())
}

/// "signing fails" contract of `HssSignature::sign`.
pub fn model_hss_sign_fails<H: HashChain>(
    _private_key: &mut hbs_lms::verif_hooks::hss_definitions::HssPrivateKey<H>,
    _message: Option<&[u8]>,
    _message_mut: Option<&mut [u8]>,
    _aux: &mut Option<MutableExpandedAuxData>,
) -> Result<hbs_lms::verif_hooks::hss_signing::HssSignature<H>, ()> {
    Err(())
}

/// contract of `HssSignature::to_binary_representation` for HSS-level harnesses over the LMS contract:
/// a fixed 36-byte record: u32(level count - 1) followed by eight 4-byte slots holding the leaf index
/// of every level, top first (unused slots zero). Fixed length and concrete offsets keep every buffer
/// write concrete for the symbolic executor. The real serialisers (byte-wise loops over p*n chain
/// bytes) are the subject of the C07 layout harnesses.
pub fn model_hss_signature_bytes<H: HashChain>(
    sig: &hbs_lms::verif_hooks::hss_signing::HssSignature<H>,
) -> ArrayVec<[u8; hbs_lms::verif_hooks::constants::MAX_HSS_SIGNATURE_LENGTH]> {
    let mut buf = [0u8; hbs_lms::verif_hooks::constants::MAX_HSS_SIGNATURE_LENGTH];
    let lv = (sig.level as u32).to_be_bytes();
    buf[0] = lv[0]; buf[1] = lv[1]; buf[2] = lv[2]; buf[3] = lv[3];
    let mut i = 0;
    while i < 8 {
        let q: [u8; 4] = if i < sig.signed_public_keys.len() {
            sig.signed_public_keys[i].sig.lms_leaf_identifier
        } else if i == sig.signed_public_keys.len() {
            sig.signature.lms_leaf_identifier
        } else {
            [0u8; 4]
        };
        buf[4 + 4 * i] = q[0]; buf[5 + 4 * i] = q[1]; buf[6 + 4 * i] = q[2]; buf[7 + 4 * i] = q[3];
        i += 1;
    }
    ArrayVec::from_array_len(buf, 36)
}

// ---- "light" contracts of the two HSS-level operations used by hss_sign_core: no LMS layer at all.
// With them everything else in hss_sign / SigningKey (key parsing, parameter decoding, aux handling,
// counter increment / wipe, callback protocol, result construction) runs as real code.

/// contract of `HssPrivateKey::from`: one LMS private key per level carrying the level's parameters
/// and the leaf the real expansion leaves current (upper levels have signed their child: q_i + 1).
pub fn model_from_light<H: HashChain>(
    rfc: &hbs_lms::verif_hooks::hss_key::ReferenceImplPrivateKey<H>,
    _aux: &mut Option<MutableExpandedAuxData>,
) -> Result<hbs_lms::verif_hooks::hss_definitions::HssPrivateKey<H>, ()> {
    let parameters = rfc.compressed_parameter.to::<H>()?;
    let used = rfc.compressed_used_leafs_indexes.to(&parameters);
    let mut k: hbs_lms::verif_hooks::hss_definitions::HssPrivateKey<H> = Default::default();
    let n = parameters.len();
    let mut i = 0;
    while i < n {
        let q = if i + 1 < n { used[i] + 1 } else { used[i] };
        k.private_key.push(LmsPrivateKey::new(
            hbs_lms::Seed::default(),
            [0u8; 16],
            q,
            *parameters[i].get_lmots_parameter(),
            *parameters[i].get_lms_parameter(),
        ));
        i += 1;
    }
    Ok(k)
}

/// contract of `HssSignature::sign`: refuses when the bottom tree has no leaf left, otherwise consumes
/// one bottom leaf and returns a signature structure carrying the leaf index of every level.
pub fn model_hss_sign_light<H: HashChain>(
    private_key: &mut hbs_lms::verif_hooks::hss_definitions::HssPrivateKey<H>,
    _message: Option<&[u8]>,
    _message_mut: Option<&mut [u8]>,
    _aux: &mut Option<MutableExpandedAuxData>,
) -> Result<hbs_lms::verif_hooks::hss_signing::HssSignature<H>, ()> {
    let n = private_key.private_key.len();
    let bottom = &mut private_key.private_key[n - 1];
    if bottom.used_leafs_index as usize >= bottom.lms_parameter.number_of_lm_ots_keys() {
        return Err(());
    }
    let mut s = hbs_lms::verif_hooks::hss_signing::HssSignature::<H> {
        level: n - 1,
        signed_public_keys: ArrayVec::new(),
        signature: Default::default(),
    };
    s.signature.lms_leaf_identifier = bottom.used_leafs_index.to_be_bytes();
    bottom.used_leafs_index += 1;
    let mut i = 0;
    while i + 1 < n {
        let mut spk: hbs_lms::verif_hooks::hss_signing::HssSignedPublicKey<H> = Default::default();
        spk.sig.lms_leaf_identifier = (private_key.private_key[i].used_leafs_index - 1).to_be_bytes();
        s.signed_public_keys.push(spk);
        i += 1;
    }
    Ok(s)
}
