//! Kani harness crate for hbs-lms-rust (see /verif/DESIGN.md). Everything of interest is under
//! `cfg(kani)`; the library under test is the path dependency `/repo`, built with
//! `--cfg hbs_lms_verif` so that `hbs_lms::verif_hooks` (pure re-exports) is visible.
#![allow(unused, static_mut_refs, clippy::all)]

pub mod models;
pub mod reference;
#[cfg(hbs_lms_verif)]
pub mod contracts;

#[cfg(any(kani, verif_check))]
#[macro_use]
pub mod proofs;

/// `cargo check` shim (RUSTFLAGS="--cfg hbs_lms_verif --cfg verif_check"): lets the harness sources be
/// type-checked in seconds without the Kani compiler. Never part of a verification run.
#[cfg(all(verif_check, not(kani)))]
pub mod kani {
    pub fn any<T>() -> T { unimplemented!() }
    pub fn assume(_c: bool) {}
    #[macro_export]
    macro_rules! __verif_cover { ($($t:tt)*) => {}; }
    pub use crate::__verif_cover as cover;
}

// Counterexample replay: the driver points VERIF_PLAYBACK at a generated test file and builds
// with `--cfg verif_playback` (cargo kani playback).
#[cfg(all(kani, verif_playback))]
#[path = "../../.work/playback/current.rs"]
mod playback_current;
