// Exposes the documented build configuration of the library under test to the harness crate as
// cfg flags, so that modules which need 8-level capacities compile only where they apply.
fn main() {
    let levels = std::env::var("HBS_LMS_MAX_ALLOWED_HSS_LEVELS").unwrap_or_else(|_| "8".into());
    println!("cargo:rustc-cfg=verif_levels=\"{}\"", levels.trim());
    println!("cargo:rerun-if-env-changed=HBS_LMS_MAX_ALLOWED_HSS_LEVELS");
    println!("cargo:rerun-if-env-changed=HBS_LMS_TREE_HEIGHTS");
    println!("cargo:rerun-if-env-changed=HBS_LMS_WINTERNITZ_PARAMETERS");
}
