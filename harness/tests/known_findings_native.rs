//! Native demonstration of the three recorded (not repaired) C12 findings: for (n=24,w=1), (16,1),
//! (16,2) the checksum left shift is smaller than Appendix B's, the least significant checksum bits
//! are not signed, and one digest's digit vector dominates another's. These tests FAIL on the
//! current tree by design; they are run by hand (cargo test --test known_findings_native), never by a check.
use hbs_lms::verif_hooks::coef::coef;
use hbs_lms::*;

fn digits<H: HashChain>(alg: LmotsAlgorithm, q: &[u8]) -> Vec<u64> {
    let p = alg.construct_parameter::<H>().unwrap();
    let full = p.append_checksum_to(q);
    (0..p.get_num_winternitz_chains()).map(|i| coef(full.as_slice(), i, p.get_winternitz())).collect()
}

fn dominated<H: HashChain>(alg: LmotsAlgorithm, n: usize) -> bool {
    // Q = all ones except the last digit; Q' = all ones: Q' >= Q on every message digit, the true checksums are
    // 1 and 0; if the low checksum bit is dropped both checksum digit strings are zero => Q' dominates Q.
    let q1 = vec![0xffu8; n];
    let mut q0 = q1.clone();
    q0[n - 1] = 0xfe;
    let (d0, d1) = (digits::<H>(alg, &q0), digits::<H>(alg, &q1));
    d0.iter().zip(d1.iter()).all(|(a, b)| b >= a)
}

#[test]
fn c12_no_digest_dominates_another_n24_w1() {
    assert!(!dominated::<Sha256_192>(LmotsAlgorithm::LmotsW1, 24), "all-ones digest dominates its neighbour: a signature on one yields a signature on the other");
}
#[test]
fn c12_no_digest_dominates_another_n16_w1() {
    assert!(!dominated::<Sha256_128>(LmotsAlgorithm::LmotsW1, 16));
}
#[test]
fn c12_no_digest_dominates_another_n16_w2() {
    assert!(!dominated::<Sha256_128>(LmotsAlgorithm::LmotsW2, 16));
}
#[test]
fn c12_control_n32_w1_is_domination_free_on_this_pair() {
    assert!(!dominated::<Sha256_256>(LmotsAlgorithm::LmotsW1, 32));
}
