//! Native (non-Kani) replays of the genuine defects found by the solver, through the public API
//! with the shipped hashers. Each test states the failing input. On a tree where the defect is
//! present the test panics / fails; on the repaired tree it passes.
use hbs_lms::signature::{Signature as _, SignerMut, Verifier};
use hbs_lms::*;
use std::panic::catch_unwind;

type H = Sha256_256;

fn keypair(params: &[HssParameter<H>]) -> (SigningKey<H>, VerifyingKey<H>) {
    let mut seed = Seed::<H>::default();
    for (i, b) in seed.as_mut_slice().iter_mut().enumerate() {
        *b = (i * 7 + 3) as u8;
    }
    keygen::<H>(params, &seed, None).unwrap()
}

fn valid_triple() -> (Vec<u8>, Vec<u8>, Vec<u8>) {
    let params = [
        HssParameter::<H>::new(LmotsAlgorithm::LmotsW8, LmsAlgorithm::LmsH5),
        HssParameter::<H>::new(LmotsAlgorithm::LmotsW8, LmsAlgorithm::LmsH5),
    ];
    let (mut sk, vk) = keypair(&params);
    let msg = b"hello".to_vec();
    let sig = sk.try_sign(&msg).unwrap();
    assert!(verify::<H>(&msg, sig.as_ref(), vk.as_slice()).is_ok());
    (msg, sig.as_ref().to_vec(), vk.as_slice().to_vec())
}

// ---- C06: verification is total ------------------------------------------------------------
#[test]
fn c06_every_prefix_of_signature_and_key_is_rejected_without_panic() {
    let (msg, sig, pk) = valid_triple();
    for cut in 0..sig.len() {
        let r = catch_unwind(|| verify::<H>(&msg, &sig[..cut], &pk));
        assert!(r.is_ok(), "verify panicked on signature truncated to {cut} bytes");
        assert!(r.unwrap().is_err());
    }
    for cut in 0..pk.len() {
        let r = catch_unwind(|| verify::<H>(&msg, &sig, &pk[..cut]));
        assert!(r.is_ok(), "verify panicked on public key truncated to {cut} bytes");
        assert!(r.unwrap().is_err());
    }
}

#[test]
fn c06_unknown_type_codes_are_rejected_without_panic() {
    let (msg, sig, pk) = valid_triple();
    // LM-OTS type of the first (upper) signature is at offset 8, of its LMS type at 8+4+32*35
    for off in [8usize, 8 + 4 + 32 * 35] {
        for code in [0u8, 10, 0x55, 0xff] {
            let mut s = sig.clone();
            s[off + 3] = code;
            let r = catch_unwind(|| verify::<H>(&msg, &s, &pk));
            assert!(r.is_ok(), "verify panicked on type code {code} at offset {off}");
            assert!(r.unwrap().is_err());
        }
    }
}

#[test]
fn c06_eight_or_more_signed_keys_are_rejected_without_panic() {
    let (msg, sig, pk) = valid_triple();
    // one signed public key of the valid signature, repeated 8 times, level count 8
    let spk_len = 4 + (4 + 32 * 35) + 4 + 32 * 5 + 56;
    let spk = &sig[4..4 + spk_len];
    let mut s = vec![0, 0, 0, 8];
    for _ in 0..8 {
        s.extend_from_slice(spk);
    }
    s.extend_from_slice(&sig[4 + spk_len..]);
    let r = catch_unwind(|| verify::<H>(&msg, &s, &pk));
    assert!(r.is_ok(), "verify panicked on a signature with 8 signed public keys");
    assert!(r.unwrap().is_err());
}

// ---- C02: exact-length checks ---------------------------------------------------------------
#[test]
fn c02_trailing_bytes_are_rejected() {
    let (msg, sig, pk) = valid_triple();
    let mut s = sig.clone();
    s.push(0);
    assert!(verify::<H>(&msg, &s, &pk).is_err(), "signature with one trailing byte accepted");
    let mut p = pk.clone();
    p.push(0);
    assert!(verify::<H>(&msg, &sig, &p).is_err(), "public key with one trailing byte accepted");
}

// ---- C01/C14: a key using the maximum number of levels must be able to sign ------------------
#[test]
fn c01_eight_level_key_signs_and_verifies() {
    let p = HssParameter::<H>::new(LmotsAlgorithm::LmotsW8, LmsAlgorithm::LmsH5);
    let (mut sk, vk) = keypair(&[p; 8]);
    let r = catch_unwind(move || {
        let sig = sk.try_sign(b"eight levels").expect("signing with a fresh 8-level key");
        assert!(vk.verify(b"eight levels", &sig).is_ok());
    });
    assert!(r.is_ok(), "signing with an 8-level key panicked");
}

// ---- C11: keygen / sign / lifetime reject malformed inputs instead of crashing ---------------
#[test]
fn c11_parameter_list_longer_than_eight_levels_is_refused() {
    let p = HssParameter::<H>::new(LmotsAlgorithm::LmotsW8, LmsAlgorithm::LmsH5);
    let seed = Seed::<H>::default();
    for n in [9usize, 10] {
        let list = vec![p; n];
        let s = seed.clone();
        let r = catch_unwind(move || keygen::<H>(&list, &s, None).is_err());
        assert!(r.is_ok(), "keygen panicked on a parameter list of {n} levels");
        assert!(r.unwrap(), "keygen accepted {n} levels");
    }
    let r = catch_unwind(|| keygen::<H>(&[], &Seed::<H>::default(), None).is_err());
    assert!(r.is_ok() && r.unwrap(), "empty parameter list must be refused without panic");
}

#[test]
fn c11_every_value_of_a_parameter_byte_is_handled() {
    let params = [HssParameter::<H>::new(LmotsAlgorithm::LmotsW8, LmsAlgorithm::LmsH5)];
    let (sk, _vk) = keypair(&params);
    for pos in [8usize, 9] {
        for v in 0..=255u8 {
            let mut blob = sk.as_slice().to_vec();
            blob[pos] = v;
            // only cheap shapes are run to completion; everything else must at least not panic
            // before expansion, which we observe through get_lifetime on 1-level H5 keys
            let lms = v >> 4;
            let ots = v & 0xf;
            // LMS type 1 (4-leaf tree) exists only under the verification hook guard this test is built with
            let valid = ((5..=9).contains(&lms) || lms == 1) && (1..=4).contains(&ots);
            if valid && !((lms == 5 || lms == 1) && pos == 8) {
                continue; // valid but expensive (tall tree or second level): skipped here
            }
            if valid && pos == 9 {
                continue;
            }
            let mut calls = 0;
            let b2 = blob.clone();
            let r = catch_unwind(move || {
                let mut cb = |_: &[u8]| {
                    calls += 1;
                    Ok(())
                };
                let r = sign::<H>(b"m", &b2, &mut cb, None);
                (r.is_ok(), calls)
            });
            assert!(r.is_ok(), "sign panicked with parameter byte {v:#x} at offset {pos}");
            let (ok, calls) = r.unwrap();
            if !valid && !(pos == 9 && v == 0xff) {
                assert!(!ok && calls == 0, "invalid parameter byte {v:#x} at {pos} must be refused");
            }
            let r = catch_unwind(|| SigningKey::<H>::from_bytes(&blob).unwrap().get_lifetime().is_ok());
            assert!(r.is_ok(), "get_lifetime panicked with parameter byte {v:#x} at offset {pos}");
        }
    }
}

#[test]
fn c11_degenerate_aux_buffers_do_not_crash() {
    let params = [HssParameter::<H>::new(LmotsAlgorithm::LmotsW8, LmsAlgorithm::LmsH5)];
    let (sk, vk) = keypair(&params);
    let mut seed = Seed::<H>::default();
    for (i, b) in seed.as_mut_slice().iter_mut().enumerate() {
        *b = (i * 7 + 3) as u8;
    }
    for len in [0usize, 1, 2, 3, 4, 5, 35, 36, 37] {
        for first in [0u8, 1, 0x80, 0xff] {
            let s = seed.clone();
            let vk2 = vk.clone();
            let r = catch_unwind(move || {
                let mut buf = vec![first; len];
                let mut slice: &mut [u8] = &mut buf[..];
                let (_, vk_aux) = keygen::<H>(&params, &s, Some(&mut slice)).expect("keygen with aux");
                assert!(vk_aux == vk2, "aux must not change the public key");
            });
            assert!(r.is_ok(), "keygen panicked / misbehaved with aux of length {len}, first byte {first:#x}");
            let blob = sk.as_slice().to_vec();
            let r = catch_unwind(move || {
                let mut buf = vec![first; len];
                let mut slice: &mut [u8] = &mut buf[..];
                let mut cb = |_: &[u8]| Ok(());
                sign::<H>(b"m", &blob, &mut cb, Some(&mut slice)).is_ok()
            });
            assert!(r.is_ok(), "sign panicked with aux of length {len}, first byte {first:#x}");
            assert!(r.unwrap(), "sign must succeed regardless of the aux buffer");
        }
    }
}

// ---- C15: the fast-verify cost evaluation must work for every hash output length -------------
#[test]
fn c15_fast_verify_eval_works_for_truncated_hashes() {
    use hbs_lms::verif_hooks::coef::coef;
    fn run<Hh: HashChain>() -> bool {
        for alg in [LmotsAlgorithm::LmotsW1, LmotsAlgorithm::LmotsW2, LmotsAlgorithm::LmotsW4, LmotsAlgorithm::LmotsW8] {
            let p = alg.construct_parameter::<Hh>().unwrap();
            let n = Hh::OUTPUT_SIZE as usize;
            let digest: Vec<u8> = (0..n).map(|i| (i * 37 + 11) as u8).collect();
            let cached = p.fast_verify_eval_init();
            let got = p.fast_verify_eval(&digest, &cached);
            let full = p.append_checksum_to(&digest);
            let want: u16 = (0..p.get_num_winternitz_chains()).map(|i| coef(full.as_slice(), i, p.get_winternitz()) as u16).sum();
            if got != want {
                return false;
            }
        }
        true
    }
    assert!(catch_unwind(run::<Sha256_256>).unwrap_or(false), "n = 32");
    assert!(catch_unwind(run::<Sha256_192>).unwrap_or(false), "fast_verify_eval panics or is wrong for n = 24");
    assert!(catch_unwind(run::<Sha256_128>).unwrap_or(false), "fast_verify_eval panics or is wrong for n = 16");
}
