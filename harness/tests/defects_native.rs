//! Native (non-Kani) replays of the genuine defects found by the solver, through the public API
//! with the shipped hashers. Each test states the failing input. On a tree where the defect is
//! present the test panics / fails; on the repaired tree it passes.
use hbs_lms::signature::{Signature as _, SignerMut, Verifier};
use hbs_lms::*;
use std::panic::catch_unwind;

type H = Sha256_256;

fn keypair(params: &[HssParameter<H>]) -> (SigningKey<H>, VerifyingKey<H>) {
    let mut seed = Seed::<H>::default();
    for (i, b) in seed.as_mut_slice().iter_mut().enumerate() {
        *b = (i * 7 + 3) as u8;
    }
    keygen::<H>(params, &seed, None).unwrap()
}

fn valid_triple() -> (Vec<u8>, Vec<u8>, Vec<u8>) {
    let params = [
        HssParameter::<H>::new(LmotsAlgorithm::LmotsW8, LmsAlgorithm::LmsH5),
        HssParameter::<H>::new(LmotsAlgorithm::LmotsW8, LmsAlgorithm::LmsH5),
    ];
    let (mut sk, vk) = keypair(&params);
    let msg = b"hello".to_vec();
    let sig = sk.try_sign(&msg).unwrap();
    assert!(verify::<H>(&msg, sig.as_ref(), vk.as_slice()).is_ok());
    (msg, sig.as_ref().to_vec(), vk.as_slice().to_vec())
}

// ---- C06: verification is total ------------------------------------------------------------
#[test]
fn c06_every_prefix_of_signature_and_key_is_rejected_without_panic() {
    let (msg, sig, pk) = valid_triple();
    for cut in 0..sig.len() {
        let r = catch_unwind(|| verify::<H>(&msg, &sig[..cut], &pk));
        assert!(r.is_ok(), "verify panicked on signature truncated to {cut} bytes");
        assert!(r.unwrap().is_err());
    }
    for cut in 0..pk.len() {
        let r = catch_unwind(|| verify::<H>(&msg, &sig, &pk[..cut]));
        assert!(r.is_ok(), "verify panicked on public key truncated to {cut} bytes");
        assert!(r.unwrap().is_err());
    }
}

#[test]
fn c06_unknown_type_codes_are_rejected_without_panic() {
    let (msg, sig, pk) = valid_triple();
    // LM-OTS type of the first (upper) signature is at offset 8, of its LMS type at 8+4+32*35
    for off in [8usize, 8 + 4 + 32 * 35] {
        for code in [0u8, 10, 0x55, 0xff] {
            let mut s = sig.clone();
            s[off + 3] = code;
            let r = catch_unwind(|| verify::<H>(&msg, &s, &pk));
            assert!(r.is_ok(), "verify panicked on type code {code} at offset {off}");
            assert!(r.unwrap().is_err());
        }
    }
}

#[test]
fn c06_eight_or_more_signed_keys_are_rejected_without_panic() {
    let (msg, sig, pk) = valid_triple();
    // one signed public key of the valid signature, repeated 8 times, level count 8
    let spk_len = 4 + (4 + 32 * 35) + 4 + 32 * 5 + 56;
    let spk = &sig[4..4 + spk_len];
    let mut s = vec![0, 0, 0, 8];
    for _ in 0..8 {
        s.extend_from_slice(spk);
    }
    s.extend_from_slice(&sig[4 + spk_len..]);
    let r = catch_unwind(|| verify::<H>(&msg, &s, &pk));
    assert!(r.is_ok(), "verify panicked on a signature with 8 signed public keys");
    assert!(r.unwrap().is_err());
}

// ---- C02: exact-length checks ---------------------------------------------------------------
#[test]
fn c02_trailing_bytes_are_rejected() {
    let (msg, sig, pk) = valid_triple();
    let mut s = sig.clone();
    s.push(0);
    assert!(verify::<H>(&msg, &s, &pk).is_err(), "signature with one trailing byte accepted");
    let mut p = pk.clone();
    p.push(0);
    assert!(verify::<H>(&msg, &sig, &p).is_err(), "public key with one trailing byte accepted");
}
