//! Native replay for the C14 defects (run under a reduced HBS_LMS_* configuration):
//! a key generated for a parameter list inside the configured limits must be usable.
use hbs_lms::signature::{SignerMut, Verifier};
use hbs_lms::*;
type H = Sha256_256;

#[test]
fn c14_generated_key_is_usable_under_this_configuration() {
    let mut seed = Seed::<H>::default();
    for (i, b) in seed.as_mut_slice().iter_mut().enumerate() {
        *b = (i * 5 + 1) as u8;
    }
    let params = [HssParameter::<H>::new(LmotsAlgorithm::LmotsW8, LmsAlgorithm::LmsH5)];
    let (mut sk, vk) = keygen::<H>(&params, &seed, None).expect("keygen inside the limits");
    assert_eq!(sk.as_slice().len(), 8 + 8 + 32, "private key blob is counter + 8 parameter bytes + seed");
    assert_eq!(&sk.as_slice()[8..16], &[0x54, 0xff, 0xff, 0xff, 0xff, 0xff, 0xff, 0xff]);
    assert_eq!(sk.get_lifetime().expect("lifetime query on a fresh key"), 32);
    let sig = sk.try_sign(b"msg").expect("signing with a fresh key");
    assert!(vk.verify(b"msg", &sig).is_ok());
}

/// Only meaningful under the configuration HBS_LMS_MAX_ALLOWED_HSS_LEVELS=1, HBS_LMS_TREE_HEIGHTS="5",
/// HBS_LMS_WINTERNITZ_PARAMETERS="8": everything outside those limits must be refused with an error.
#[test]
fn c14_parameter_lists_beyond_the_limits_are_refused() {
    if option_env!("HBS_LMS_MAX_ALLOWED_HSS_LEVELS") != Some("1")
        || option_env!("HBS_LMS_TREE_HEIGHTS") != Some("5")
        || option_env!("HBS_LMS_WINTERNITZ_PARAMETERS") != Some("8")
    {
        return;
    }
    let seed = Seed::<H>::default();
    let w8h5 = HssParameter::<H>::new(LmotsAlgorithm::LmotsW8, LmsAlgorithm::LmsH5);
    let cases: Vec<(&str, Vec<HssParameter<H>>)> = vec![
        ("Winternitz parameter below the configured minimum", vec![HssParameter::new(LmotsAlgorithm::LmotsW4, LmsAlgorithm::LmsH5)]),
        ("tree height above the configured maximum", vec![HssParameter::new(LmotsAlgorithm::LmotsW8, LmsAlgorithm::LmsH10)]),
        ("more levels than configured", vec![w8h5, w8h5]),
    ];
    for (what, list) in cases {
        let s = seed.clone();
        let r = std::panic::catch_unwind(move || keygen::<H>(&list, &s, None).is_err());
        assert!(r.is_ok(), "keygen panicked: {what}");
        assert!(r.unwrap(), "keygen accepted: {what}");
    }
    // a key file written by a default build for a shape this build does not support
    for pb in [0x53u8, 0x64] {
        let mut blob = vec![0u8; 48];
        blob[8] = pb;
        for b in &mut blob[9..16] {
            *b = 0xff;
        }
        let b2 = blob.clone();
        let r = std::panic::catch_unwind(move || {
            let mut cb = |_: &[u8]| Ok(());
            sign::<H>(b"m", &b2, &mut cb, None).is_err()
        });
        assert!(r.is_ok(), "sign panicked on a key with unsupported parameter byte {pb:#x}");
        assert!(r.unwrap(), "sign accepted a key with unsupported parameter byte {pb:#x}");
        let r = std::panic::catch_unwind(|| SigningKey::<H>::from_bytes(&blob).unwrap().get_lifetime().is_err());
        assert!(r.is_ok() && r.unwrap(), "get_lifetime must refuse parameter byte {pb:#x}");
    }
}
