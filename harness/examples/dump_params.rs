//! Prints the LM-OTS parameter table as the library under test computes it (input of the C12 SMT lemmas).
use hbs_lms::{HashChain, LmotsAlgorithm, Sha256_128, Sha256_192, Sha256_256};

fn row<H: HashChain>(a: LmotsAlgorithm) -> String {
    let p = a.construct_parameter::<H>().unwrap();
    format!(
        "{{\"n\": {}, \"w\": {}, \"p\": {}, \"ls\": {}, \"type\": {}}}",
        p.get_hash_function_output_size(), p.get_winternitz(), p.get_num_winternitz_chains(), p.get_checksum_left_shift(), p.get_type_id()
    )
}

fn main() {
    let algs = [LmotsAlgorithm::LmotsW1, LmotsAlgorithm::LmotsW2, LmotsAlgorithm::LmotsW4, LmotsAlgorithm::LmotsW8];
    let mut rows = Vec::new();
    for a in algs { rows.push(row::<Sha256_128>(a)); }
    for a in algs { rows.push(row::<Sha256_192>(a)); }
    for a in algs { rows.push(row::<Sha256_256>(a)); }
    println!("[{}]", rows.join(", "));
}
