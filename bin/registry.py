"""Registry of proof obligations: which Kani harness belongs to which property and tier, under which
build configuration and Kani flag set it is compiled, and what it covers (copied into the evidence)."""

# Build configurations = documented HBS_LMS_* environments (build.rs). `default` is the one from
# /repo/.cargo/config.toml (8 levels, heights 25, Winternitz minimum 1).
CONFIGS = {
    "default": {},
    "w8": {  # 8 levels, all heights, W8 only -> 34-chain arrays instead of 265
        "HBS_LMS_MAX_ALLOWED_HSS_LEVELS": "8",
        "HBS_LMS_TREE_HEIGHTS": "25, 25, 25, 25, 25, 25, 25, 25",
        "HBS_LMS_WINTERNITZ_PARAMETERS": "8, 8, 8, 8, 8, 8, 8, 8",
    },
    "w4": {
        "HBS_LMS_MAX_ALLOWED_HSS_LEVELS": "8",
        "HBS_LMS_TREE_HEIGHTS": "25, 25, 25, 25, 25, 25, 25, 25",
        "HBS_LMS_WINTERNITZ_PARAMETERS": "4, 4, 4, 4, 4, 4, 4, 4",
    },
    "w2": {
        "HBS_LMS_MAX_ALLOWED_HSS_LEVELS": "8",
        "HBS_LMS_TREE_HEIGHTS": "25, 25, 25, 25, 25, 25, 25, 25",
        "HBS_LMS_WINTERNITZ_PARAMETERS": "2, 2, 2, 2, 2, 2, 2, 2",
    },
    "l2w8": {
        "HBS_LMS_MAX_ALLOWED_HSS_LEVELS": "2",
        "HBS_LMS_TREE_HEIGHTS": "25, 25",
        "HBS_LMS_WINTERNITZ_PARAMETERS": "8, 8",
    },
    "l1w8": {
        "HBS_LMS_MAX_ALLOWED_HSS_LEVELS": "1",
        "HBS_LMS_TREE_HEIGHTS": "25",
        "HBS_LMS_WINTERNITZ_PARAMETERS": "8",
    },
    "l1w8h5": {
        "HBS_LMS_MAX_ALLOWED_HSS_LEVELS": "1",
        "HBS_LMS_TREE_HEIGHTS": "5",
        "HBS_LMS_WINTERNITZ_PARAMETERS": "8",
    },
    "l2w8h5": {
        "HBS_LMS_MAX_ALLOWED_HSS_LEVELS": "2",
        "HBS_LMS_TREE_HEIGHTS": "5, 5",
        "HBS_LMS_WINTERNITZ_PARAMETERS": "8, 8",
    },
    "l3w8h5": {
        "HBS_LMS_MAX_ALLOWED_HSS_LEVELS": "3",
        "HBS_LMS_TREE_HEIGHTS": "5, 5, 5",
        "HBS_LMS_WINTERNITZ_PARAMETERS": "8, 8, 8",
    },
}

# Kani flag sets. Unwinding checks are never disabled.
FLAGSETS = {
    "std": [],
    # equational harnesses: memory-safety/overflow of the same functions is the subject of the
    # Havoc harnesses; dropping the default checks halves symbolic execution
    "eq": ["--no-default-checks", "--no-assertion-reach-checks"],
}

DEFAULT_STUBS = [
    "zeroize::optimization_barrier -> no-op (empty asm! block; no data effect)",
    "<[T; N] as tinyvec::Array>::default -> zeroed array (all-zero is the Default of every element type used)",
]

COMMON_ASSUMPTIONS = [
    "all claims are bounded: loop unwinding bounds, buffer caps and value ranges as listed per harness; Kani's unwinding assertions are on and must pass",
    "the library's generic code is instantiated with model hashers (Havoc/Toy/Rec) through its public HashChain extension point; real SHA-256/SHAKE256 digests are outside the claim except where stated",
    "64-bit target (usize = u64), the dev profile semantics Kani models (overflow checks on)",
]

PROPERTY_ASSUMPTIONS = {}

SMT_LEMMAS = []

_H = []


def H(prop, tier, module, name, config="default", flagset="std", timeout=900, **meta):
    e = dict(prop=prop, tier=tier, name=name, path=f"proofs::{module}::{name}" if module else f"proofs::{name}",
             config=config, flagset=flagset, timeout=timeout)
    e.update(meta)
    _H.append(e)


def harnesses():
    return list(_H)


# ---------------------------------------------------------------------------------------------
# driver self-test (not a property)
H("SELFTEST", "quick", "", "selftest_smoke", timeout=120, min_covers=0)
H("SELFTEST_FAIL", "quick", "", "selftest_must_fail", timeout=120, min_covers=0)

# ---------------------------------------------------------------------------------------------
# C06 verification is total
_parse_fns = ["hss::signing::InMemoryHssSignature::new", "hss::signing::InMemoryHssSignedPublicKey::new/len",
              "lms::signing::InMemoryLmsSignature::new", "lm_ots::signing::InMemoryLmotsSignature::new",
              "lms::definitions::InMemoryLmsPublicKey::new", "util::helper::read/read_and_advance",
              "LmotsAlgorithm::get_from_type", "LmsAlgorithm::get_from_type", "constants::lms_signature_length"]
for n, cap, tier in ((16, 900, "quick"), (24, 1560, "thorough"), (32, 2560, "thorough")):
    H("C06", tier, "c06", f"c06_parse_hss_sig_n{n}", timeout=1200, model=f"Havoc{n} (no digest is computed by the parsers)",
      encodes=_parse_fns, unwind=7,
      forall=f"every byte string of every length 0..{cap} as HSS signature, all type codes and level counts symbolic",
      bounds=f"buffer cap {cap} bytes = one signed public key + one LMS signature of the smallest shape (n={n}, W8) plus slack; "
             "unwind 7 covers the level loop (<= 3 iterations fit the cap) and pow()",
      outside="signatures longer than the cap (parse is length-driven, more levels repeat the same code; the level-capacity overflow is a separate harness)")
    H("C06", "quick", "c06", f"c06_parse_hss_pk_n{n}", timeout=300, model=f"Havoc{n}",
      encodes=["hss::definitions::InMemoryHssPublicKey::new", "lms::definitions::InMemoryLmsPublicKey::new"], unwind=4,
      forall="every byte string of every length 0..72 as HSS public key", bounds="cap 72 bytes > 4+24+32 (largest key) + slack")

# ---------------------------------------------------------------------------------------------
# C12 Winternitz digit encoding
PAIRS = [(n, w) for n in (16, 24, 32) for w in (1, 2, 4, 8)]
for w in (1, 2, 4, 8):
    H("C12", "quick", "c12", f"c12_d1_coef_w{w}", timeout=300, model="none (pure function)", encodes=["util::coef::coef"], unwind=2,
      forall=f"every 34-byte string, every digit index i < 272/{w}", bounds="exact for the library's buffers (n+2 <= 34 bytes)")
for n, w in PAIRS:
    H("C12", "quick", "c12", f"c12_d2_checksum_n{n}_w{w}", timeout=600, model=f"Havoc{n} (no digest computed)",
      encodes=["LmotsParameter::append_checksum_to", "LmotsParameter::checksum", "util::coef::coef", "LmotsAlgorithm::construct_parameter"],
      forall=f"every {n}-byte digest Q (all {8*n} bits symbolic)", bounds="exact (loop bound = u+2)", unwind=8 * n // w + 2)
    H("C12", "quick", "c12", f"c12_d3_table_n{n}_w{w}", timeout=120, model=f"Havoc{n}",
      encodes=["LmotsAlgorithm::construct_parameter", "LmotsAlgorithm::get_from_type", "constants::get_num_winternitz_chains"],
      forall="constant table entry vs the Appendix-B formula evaluated in the harness", bounds="exact")
    H("C12", "quick", "c12", f"c12_d4_cksm_digits_n{n}_w{w}", timeout=120, model=f"Havoc{n}",
      encodes=["util::coef::coef", "LmotsAlgorithm::construct_parameter (p, ls)"],
      forall="every attainable checksum value S <= u(2^w-1)", bounds="exact")
H("C12", "quick", "c12", "c12_d3_unknown_type_codes", timeout=120, model="Havoc32", encodes=["LmotsAlgorithm::get_from_type"],
  forall="every u32 type code outside 1..4", bounds="exact")

# ---------------------------------------------------------------------------------------------
# C13 / C05 / C03 counter kernels (one harness instance per level count L; heights symbolic)
def _shape(L):
    return f"every list of {L} levels over heights {{2(hook),5,10,15,20,25}} (6^{L} tuples, symbolic), every counter below 2^(sum h)"
for L in range(1, 9):
    t = "quick" if L <= 4 else "thorough"
    H("C13", t, "c13", f"c13_increment_l{L}", timeout=1200, model="none (pure arithmetic)", encodes=["CompressedUsedLeafsIndexes::increment"],
      forall=_shape(L) + ", sum h <= 63", bounds="exact; unwind 34 covers u64::pow and the level loops", unwind=34)
    H("C13", t, "c13", f"c13_lifetime_l{L}", timeout=3600, model="none", encodes=["HssPrivateKey::get_lifetime", "CompressedUsedLeafsIndexes::to", "LmsParameter::number_of_lm_ots_keys"],
      forall=_shape(L) + ", sum h <= 63; key state as HssPrivateKey::from leaves it (upper levels used q_i+1, bottom q_L)", bounds="exact", unwind=34)
    H("C13", t, "c13", f"c13_digits_l{L}", timeout=3600, model="none", encodes=["CompressedUsedLeafsIndexes::to"],
      forall=_shape(L) + ", sum h <= 63", bounds="exact", unwind=34)
    H("C13", "thorough" if L > 3 else "quick", "c13", f"c13_injective_l{L}", timeout=3600, model="none", encodes=["CompressedUsedLeafsIndexes::to"],
      forall=_shape(L) + " twice (two counters), sum h <= 63, every prefix length", bounds="exact", unwind=34)
    if L >= 3:
        H("C13", t, "c13", f"c13_tall_l{L}", timeout=3600, model="none",
          encodes=["CompressedUsedLeafsIndexes::to", "CompressedUsedLeafsIndexes::increment", "HssPrivateKey::get_lifetime"],
          forall=f"every list of {L} levels with sum h >= 64, every 64-bit counter", bounds="exact", unwind=34)
    H("C05", t, "c13", f"c05_wipe_l{L}", timeout=1800, model="Havoc16 (no digest computed)",
      encodes=["ReferenceImplPrivateKey::increment", "ReferenceImplPrivateKey::wipe", "ReferenceImplPrivateKey::to_binary_representation",
               "ReferenceImplPrivateKey::generate", "CompressedParameterSet::from/to", "CompressedUsedLeafsIndexes::increment"],
      forall=_shape(L) + ", every 16-byte seed", bounds="exact; n = 16", unwind=34)

# ---------------------------------------------------------------------------------------------
# C04 callback protocol (the contract harnesses also serve C05 refusal and C11 totality)
_sign_fns = ["hss::hss_sign / hss_sign_core", "ReferenceImplPrivateKey::from_binary_representation / increment / to_binary_representation",
             "CompressedParameterSet::to", "CompressedUsedLeafsIndexes::to / increment", "HssPrivateKey::from / get_expanded_aux_data",
             "HssSignature::sign / to_binary_representation", "Signature::from_bytes_verbose"]
_real_fns = _sign_fns + ["LmsSignature::sign / build_authentication_path", "lms::helper::get_tree_element", "lm_ots::keygen::*", "LmotsSignature::sign",
                         "LmsPrivateKey::use_lmots_private_key", "generate_signature_randomizer / SeedDerive"]
_sum_stub = DEFAULT_STUBS + ["HashChain::do_actual_hash_chain overridden by HavocSum16 (one havoc step)"]
for c in (0, 1, 2, 3):
    H("C04", "quick" if c in (0, 3) else "thorough", "c04", f"c04_protocol_real_h2w8_l1_c{c}", config="l1w8h5", timeout=3600,
      model="HavocSum16 (digests havoc, Winternitz chain summarised by the HashChain override)", encodes=_real_fns, unwind=36,
      forall=f"1 level H2(hook)/W8, counter {c} (one instance per counter value 0..3): every 16-byte seed, every message of length 0..4, both callback outcomes",
      bounds="4-leaf tree, W8 (18 chains), n=16", stubs=_sum_stub)
for c in (0, 3, 4, 15):
    H("C04", "thorough", "c04", f"c04_protocol_real_h2w8_l2_c{c}", config="l2w8h5", timeout=7200, model="HavocSum16",
      encodes=_real_fns + ["lms::generate_key_pair", "generate_child_seed_and_lms_tree_identifier"], unwind=36,
      forall=f"2 levels H2/W8, counter {c} (instances 0, 3, 4 = roll-over into a fresh subtree, 15 = last leaf): seed, message, both outcomes",
      bounds="4-leaf trees, W8, n=16", stubs=_sum_stub)
for c in (0, 2, 3):
    H("C04", "quick" if c == 3 else "thorough", "c04", f"c04_signing_key_entry_h2w8_l1_c{c}", config="l1w8h5", timeout=3600, model="HavocSum16",
      encodes=_real_fns + ["SigningKey::from_bytes / try_sign / try_sign_with_aux / get_lifetime / as_slice"], unwind=36,
      forall=f"1 level H2/W8, counter {c}: seed, 3-byte message; sign, lifetime before/after, second sign after exhaustion", bounds="4-leaf tree, W8, n=16", stubs=_sum_stub)
_contract_stubs = DEFAULT_STUBS + ["lms::generate_key_pair -> contracts::model_generate_key_pair (same private key, havoc root)",
                                   "LmsSignature::sign -> contracts::model_lms_sign (consumes exactly one leaf or refuses; no hash values)",
                                   "HashChain::do_actual_hash_chain overridden by HavocSum16"]
_pre_fns = ["hss::hss_sign / hss_sign_core (up to the expansion)", "ReferenceImplPrivateKey::from_binary_representation", "CompressedParameterSet::from_slice / to",
            "HssParameter::new", "hss::aux::hss_is_aux_data_used / hss_expand_aux_data / hss_get_aux_data_len / hss_optimal_aux_level / hss_store_aux_marker / compute_hmac",
            "HssPrivateKey::get_expanded_aux_data", "SigningKey::from_bytes / get_lifetime"]
for prop in ("C04", "C11"):
    for name, n, aux in (("c04_malformed_key_n16", 16, False), ("c04_malformed_key_aux_n16", 16, True), ("c04_malformed_key_n32", 32, False)):
        H(prop, "quick", "c04", name, config="w8", timeout=3600, model=f"HavocSum{n}", encodes=_pre_fns, unwind=36, replayable="try",
          stubs=DEFAULT_STUBS + ["HssPrivateKey::from -> contracts::model_from_fails (the expansion always fails: every path ends in an error)"],
          forall="every private-key byte string of every length 0..40 (all 256 values of every byte), 2-byte message, both callback outcomes"
                 + (", every auxiliary buffer of every length 0..48 and content" if aux else ""),
          bounds=f"n={n} (valid key length {16+n}); build configuration w8 (8 levels, heights <= 25, W8 only)")
H("C04", "quick", "c04", "c04_sign_fails_no_callback", config="l1w8h5", timeout=1800, model="HavocSum16", encodes=_sign_fns, unwind=36, replayable=False,
  stubs=DEFAULT_STUBS + ["HssSignature::sign -> contracts::model_hss_sign_fails"], forall="1 level H2/W8, counter 1, every seed, both callback outcomes; signing proper fails",
  bounds="n=16")
for prop in ("C03", "C05"):
    for name, cfg, tier in (("c03_step_contract_h5_h10_h25", "w8", "quick"), ("c03_step_contract_h25_h5", "w8", "quick"), ("c03_step_contract_h20", "w8", "quick"),
                            ("c03_step_contract_h15_h15_h15_h15", "w8", "thorough"), ("c03_step_contract_8x_h5", "w8", "thorough")):
        H(prop, tier, "c04", name, config=cfg, timeout=7200, model="HavocSum16", encodes=_sign_fns + ["SigningKey::get_lifetime", "HssPrivateKey::get_lifetime"],
          unwind=36, replayable=False, stubs=_contract_stubs,
          forall="concrete shape (type bytes assigned), every counter of the complete lifetime (up to 2^60), every seed, both callback outcomes",
          bounds="n=16, W8; LMS layer by contract (tall trees are not built)")

# ---------------------------------------------------------------------------------------------
# C15 fast-verify cost evaluation kernel (the only fast-verify mechanism compiled without the feature)
for n, w in PAIRS:
    H("C15", "quick", "c15", f"c15_eval_n{n}_w{w}", timeout=900, model=f"Havoc{n} (no digest computed)",
      encodes=["LmotsParameter::fast_verify_eval_init", "LmotsParameter::fast_verify_eval", "util::coef::coef_helper", "LmotsParameter::append_checksum_to"],
      forall=f"every {n}-byte digest Q", bounds="exact", unwind=8 * n // w + 12)

# ---------------------------------------------------------------------------------------------
# C07 tables and layout
H("C07", "quick", "c07", "c07_length_tables", timeout=600, model="none", encodes=["constants::get_num_winternitz_chains / lmots_signature_length / lms_signature_length / lms_public_key_length",
  "LmsAlgorithm::get_from_type", "LmsParameter::number_of_lm_ots_keys"], forall="all 12 (n, w) x 6 heights (constants), every u32 LMS type code", bounds="exact")
for n in (16, 24, 32):
    H("C07", "quick", "c07", f"c07_lms_public_key_layout_n{n}", timeout=600, model=f"Havoc{n}", encodes=["LmsPublicKey::to_binary_representation"],
      forall="every tree identifier and root value", bounds="one (w, h) pair per n (type codes are constants of the parameter set)")
for n in (16, 32):
    H("C07", "quick", "c07", f"c07_lms_signature_layout_n{n}", config="w8", timeout=1800, model=f"Havoc{n}",
      encodes=["LmsSignature::to_binary_representation", "LmotsSignature::to_binary_representation"],
      forall="every leaf index, randomizer, chain value and path node content; 3 chain values, 2 path nodes",
      bounds="element counts 3 / 2 (the serialiser is a loop over elements; more elements repeat the same body)")
