"""Registry of proof obligations: which Kani harness belongs to which property and tier, under which
build configuration and Kani flag set it is compiled, and what it covers (copied into the evidence)."""

# Build configurations = documented HBS_LMS_* environments (build.rs). `default` is the one from
# /repo/.cargo/config.toml (8 levels, heights 25, Winternitz minimum 1).
CONFIGS = {
    "default": {},
    "w8": {  # 8 levels, all heights, W8 only -> 34-chain arrays instead of 265
        "HBS_LMS_MAX_ALLOWED_HSS_LEVELS": "8",
        "HBS_LMS_TREE_HEIGHTS": "25, 25, 25, 25, 25, 25, 25, 25",
        "HBS_LMS_WINTERNITZ_PARAMETERS": "8, 8, 8, 8, 8, 8, 8, 8",
    },
    "w4": {
        "HBS_LMS_MAX_ALLOWED_HSS_LEVELS": "8",
        "HBS_LMS_TREE_HEIGHTS": "25, 25, 25, 25, 25, 25, 25, 25",
        "HBS_LMS_WINTERNITZ_PARAMETERS": "4, 4, 4, 4, 4, 4, 4, 4",
    },
    "w2": {
        "HBS_LMS_MAX_ALLOWED_HSS_LEVELS": "8",
        "HBS_LMS_TREE_HEIGHTS": "25, 25, 25, 25, 25, 25, 25, 25",
        "HBS_LMS_WINTERNITZ_PARAMETERS": "2, 2, 2, 2, 2, 2, 2, 2",
    },
    "l2w8": {
        "HBS_LMS_MAX_ALLOWED_HSS_LEVELS": "2",
        "HBS_LMS_TREE_HEIGHTS": "25, 25",
        "HBS_LMS_WINTERNITZ_PARAMETERS": "8, 8",
    },
    "l1w8": {
        "HBS_LMS_MAX_ALLOWED_HSS_LEVELS": "1",
        "HBS_LMS_TREE_HEIGHTS": "25",
        "HBS_LMS_WINTERNITZ_PARAMETERS": "8",
    },
    "l3w8h5": {
        "HBS_LMS_MAX_ALLOWED_HSS_LEVELS": "3",
        "HBS_LMS_TREE_HEIGHTS": "5, 5, 5",
        "HBS_LMS_WINTERNITZ_PARAMETERS": "8, 8, 8",
    },
}

# Kani flag sets. Unwinding checks are never disabled.
FLAGSETS = {
    "std": [],
    # equational harnesses: memory-safety/overflow of the same functions is the subject of the
    # Havoc harnesses; dropping the default checks halves symbolic execution
    "eq": ["--no-default-checks", "--no-assertion-reach-checks"],
}

DEFAULT_STUBS = [
    "zeroize::optimization_barrier -> no-op (empty asm! block; no data effect)",
    "<[T; N] as tinyvec::Array>::default -> zeroed array (all-zero is the Default of every element type used)",
]

COMMON_ASSUMPTIONS = [
    "all claims are bounded: loop unwinding bounds, buffer caps and value ranges as listed per harness; Kani's unwinding assertions are on and must pass",
    "the library's generic code is instantiated with model hashers (Havoc/Toy/Rec) through its public HashChain extension point; real SHA-256/SHAKE256 digests are outside the claim except where stated",
    "64-bit target (usize = u64), the dev profile semantics Kani models (overflow checks on)",
]

PROPERTY_ASSUMPTIONS = {}

SMT_LEMMAS = []

_H = []


def H(prop, tier, module, name, config="default", flagset="std", timeout=900, **meta):
    e = dict(prop=prop, tier=tier, name=name, path=f"proofs::{module}::{name}" if module else f"proofs::{name}",
             config=config, flagset=flagset, timeout=timeout)
    e.update(meta)
    _H.append(e)


def harnesses():
    return list(_H)


# ---------------------------------------------------------------------------------------------
# driver self-test (not a property)
H("SELFTEST", "quick", "", "selftest_smoke", timeout=120, min_covers=0)
H("SELFTEST_FAIL", "quick", "", "selftest_must_fail", timeout=120, min_covers=0)

# ---------------------------------------------------------------------------------------------
# C06 verification is total
_parse_fns = ["hss::signing::InMemoryHssSignature::new", "hss::signing::InMemoryHssSignedPublicKey::new/len",
              "lms::signing::InMemoryLmsSignature::new", "lm_ots::signing::InMemoryLmotsSignature::new",
              "lms::definitions::InMemoryLmsPublicKey::new", "util::helper::read/read_and_advance",
              "LmotsAlgorithm::get_from_type", "LmsAlgorithm::get_from_type", "constants::lms_signature_length"]
for n, cap, tier in ((16, 900, "quick"), (24, 1560, "thorough"), (32, 2560, "thorough")):
    H("C06", tier, "c06", f"c06_parse_hss_sig_n{n}", timeout=1200, model=f"Havoc{n} (no digest is computed by the parsers)",
      encodes=_parse_fns, unwind=7,
      forall=f"every byte string of every length 0..{cap} as HSS signature, all type codes and level counts symbolic",
      bounds=f"buffer cap {cap} bytes = one signed public key + one LMS signature of the smallest shape (n={n}, W8) plus slack; "
             "unwind 7 covers the level loop (<= 3 iterations fit the cap) and pow()",
      outside="signatures longer than the cap (parse is length-driven, more levels repeat the same code; the level-capacity overflow is a separate harness)")
    H("C06", "quick", "c06", f"c06_parse_hss_pk_n{n}", timeout=300, model=f"Havoc{n}",
      encodes=["hss::definitions::InMemoryHssPublicKey::new", "lms::definitions::InMemoryLmsPublicKey::new"], unwind=4,
      forall="every byte string of every length 0..72 as HSS public key", bounds="cap 72 bytes > 4+24+32 (largest key) + slack")
