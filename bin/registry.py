"""Registry of proof obligations: which Kani harness belongs to which property and tier, under which
build configuration and Kani flag set it is compiled, and what it covers (copied into the evidence)."""

# Build configurations = documented HBS_LMS_* environments (build.rs). `default` is the one from
# /repo/.cargo/config.toml (8 levels, heights 25, Winternitz minimum 1).
CONFIGS = {
    "default": {},
    "w8": {  # 8 levels, all heights, W8 only -> 34-chain arrays instead of 265
        "HBS_LMS_MAX_ALLOWED_HSS_LEVELS": "8",
        "HBS_LMS_TREE_HEIGHTS": "25, 25, 25, 25, 25, 25, 25, 25",
        "HBS_LMS_WINTERNITZ_PARAMETERS": "8, 8, 8, 8, 8, 8, 8, 8",
    },
    "w4": {
        "HBS_LMS_MAX_ALLOWED_HSS_LEVELS": "8",
        "HBS_LMS_TREE_HEIGHTS": "25, 25, 25, 25, 25, 25, 25, 25",
        "HBS_LMS_WINTERNITZ_PARAMETERS": "4, 4, 4, 4, 4, 4, 4, 4",
    },
    "w2": {
        "HBS_LMS_MAX_ALLOWED_HSS_LEVELS": "8",
        "HBS_LMS_TREE_HEIGHTS": "25, 25, 25, 25, 25, 25, 25, 25",
        "HBS_LMS_WINTERNITZ_PARAMETERS": "2, 2, 2, 2, 2, 2, 2, 2",
    },
    "l2w8": {
        "HBS_LMS_MAX_ALLOWED_HSS_LEVELS": "2",
        "HBS_LMS_TREE_HEIGHTS": "25, 25",
        "HBS_LMS_WINTERNITZ_PARAMETERS": "8, 8",
    },
    "l1w8": {
        "HBS_LMS_MAX_ALLOWED_HSS_LEVELS": "1",
        "HBS_LMS_TREE_HEIGHTS": "25",
        "HBS_LMS_WINTERNITZ_PARAMETERS": "8",
    },
    "l2mixed": {  # non-uniform per-level limits
        "HBS_LMS_MAX_ALLOWED_HSS_LEVELS": "2",
        "HBS_LMS_TREE_HEIGHTS": "5, 10",
        "HBS_LMS_WINTERNITZ_PARAMETERS": "8, 4",
    },
    "l3mixed": {
        "HBS_LMS_MAX_ALLOWED_HSS_LEVELS": "3",
        "HBS_LMS_TREE_HEIGHTS": "10, 5, 15",
        "HBS_LMS_WINTERNITZ_PARAMETERS": "2, 8, 4",
    },
    "l1w8": {"HBS_LMS_MAX_ALLOWED_HSS_LEVELS": "1", "HBS_LMS_TREE_HEIGHTS": "25", "HBS_LMS_WINTERNITZ_PARAMETERS": "8"},
    "l2w8": {"HBS_LMS_MAX_ALLOWED_HSS_LEVELS": "2", "HBS_LMS_TREE_HEIGHTS": "25, 25", "HBS_LMS_WINTERNITZ_PARAMETERS": "8, 8"},
    "l3w8": {"HBS_LMS_MAX_ALLOWED_HSS_LEVELS": "3", "HBS_LMS_TREE_HEIGHTS": "25, 25, 25", "HBS_LMS_WINTERNITZ_PARAMETERS": "8, 8, 8"},
    "l4w8": {"HBS_LMS_MAX_ALLOWED_HSS_LEVELS": "4", "HBS_LMS_TREE_HEIGHTS": "25, 25, 25, 25", "HBS_LMS_WINTERNITZ_PARAMETERS": "8, 8, 8, 8"},
    "l1w8h5": {
        "HBS_LMS_MAX_ALLOWED_HSS_LEVELS": "1",
        "HBS_LMS_TREE_HEIGHTS": "5",
        "HBS_LMS_WINTERNITZ_PARAMETERS": "8",
    },
    "l2w8h5": {
        "HBS_LMS_MAX_ALLOWED_HSS_LEVELS": "2",
        "HBS_LMS_TREE_HEIGHTS": "5, 5",
        "HBS_LMS_WINTERNITZ_PARAMETERS": "8, 8",
    },
    "l3w8h5": {
        "HBS_LMS_MAX_ALLOWED_HSS_LEVELS": "3",
        "HBS_LMS_TREE_HEIGHTS": "5, 5, 5",
        "HBS_LMS_WINTERNITZ_PARAMETERS": "8, 8, 8",
    },
}

# Kani flag sets. Unwinding checks are never disabled.
# CBMC_ARGS: arrays up to 2048 elements stay field-sensitive in CBMC (default 64): constants written into
# large byte buffers (type codes, level counts) then propagate through symbolic execution, which
# makes parser harnesses ~25x cheaper (measured: 344 s -> 12 s).
CBMC_ARGS = {
    "std": ["--max-field-sensitivity-array-size", "2048"],
    "eq": ["--max-field-sensitivity-array-size", "2048"],
    "std64": [],
}
FLAGSETS = {
    "std": [],
    "std64": [],
    # equational harnesses: memory-safety/overflow of the same functions is the subject of the
    # Havoc harnesses; dropping the default checks halves symbolic execution
    "eq": ["--no-default-checks", "--no-assertion-reach-checks"],
}

DEFAULT_STUBS = [
    "zeroize::optimization_barrier -> no-op (empty asm! block; no data effect)",
    "<[T; N] as tinyvec::Array>::default -> zeroed array (all-zero is the Default of every element type used)",
]

COMMON_ASSUMPTIONS = [
    "all claims are bounded: loop unwinding bounds, buffer caps and value ranges as listed per harness; Kani's unwinding assertions are on and must pass",
    "the library's generic code is instantiated with model hashers (Havoc/Toy/Rec) through its public HashChain extension point; real SHA-256/SHAKE256 digests are outside the claim except where stated",
    "64-bit target (usize = u64), the dev profile semantics Kani models (overflow checks on)",
]

PROPERTY_ASSUMPTIONS = {}

# harnesses per cargo-kani invocation (kani-driver memory grows with the output of every harness it runs)
CHUNK = {"C12": 16, "C13": 12, "C15": 12, "C14": 8}

SMT_LEMMAS = [
    {"prop": "C12", "tier": "quick", "name": "c12_lemma_i_sum_monotone"},
    {"prop": "C12", "tier": "quick", "name": "c12_lemma_ii_digit_order"},
]

_H = []


def H(prop, tier, module, name, config="default", flagset="std", timeout=900, **meta):
    # generous per-harness caps: a loaded machine must not turn a passing harness into an inconclusive one
    e = dict(prop=prop, tier=tier, name=name, path=f"proofs::{module}::{name}" if module else f"proofs::{name}",
             config=config, flagset=flagset, timeout=max(timeout, 2400))
    e.update(meta)
    _H.append(e)


def harnesses():
    return list(_H)


# ---------------------------------------------------------------------------------------------
# driver self-test (not a property)
H("SELFTEST", "quick", "", "selftest_smoke", timeout=120, min_covers=0)
H("SELFTEST_FAIL", "quick", "", "selftest_must_fail", timeout=120, min_covers=0)

# ---------------------------------------------------------------------------------------------
# C06 verification is total
_parse_fns = ["hss::signing::InMemoryHssSignature::new", "hss::signing::InMemoryHssSignedPublicKey::new/len",
              "lms::signing::InMemoryLmsSignature::new", "lm_ots::signing::InMemoryLmotsSignature::new",
              "lms::definitions::InMemoryLmsPublicKey::new", "util::helper::read/read_and_advance",
              "LmotsAlgorithm::get_from_type", "LmsAlgorithm::get_from_type", "constants::lms_signature_length"]
for n, cap, tier in ((16, 900, "quick"), (24, 1560, "thorough"), (32, 2560, "thorough")):
    H("C06", tier, "c06", f"c06_parse_hss_sig_n{n}", timeout=1200, model=f"Havoc{n} (no digest is computed by the parsers)",
      encodes=_parse_fns, unwind=7,
      forall=f"every byte string of every length 0..{cap} as HSS signature, all type codes and level counts symbolic",
      bounds=f"buffer cap {cap} bytes = one signed public key + one LMS signature of the smallest shape (n={n}, W8) plus slack; "
             "unwind 7 covers the level loop (<= 3 iterations fit the cap) and pow()",
      outside="signatures longer than the cap (parse is length-driven, more levels repeat the same code; the level-capacity overflow is a separate harness)")
    H("C06", "quick", "c06", f"c06_parse_hss_pk_n{n}", timeout=300, model=f"Havoc{n}",
      encodes=["hss::definitions::InMemoryHssPublicKey::new", "lms::definitions::InMemoryLmsPublicKey::new"], unwind=4,
      forall="every byte string of every length 0..72 as HSS public key", bounds="cap 72 bytes > 4+24+32 (largest key) + slack")

# ---------------------------------------------------------------------------------------------
# C12 Winternitz digit encoding
PAIRS = [(n, w) for n in (16, 24, 32) for w in (1, 2, 4, 8)]
for w in (1, 2, 4, 8):
    H("C12", "quick", "c12", f"c12_d1_coef_w{w}", timeout=300, model="none (pure function)", encodes=["util::coef::coef"], unwind=2,
      forall=f"every 34-byte string, every digit index i < 272/{w}", bounds="exact for the library's buffers (n+2 <= 34 bytes)")
for n, w in PAIRS:
    H("C12", "quick", "c12", f"c12_d2_checksum_n{n}_w{w}", timeout=600, model=f"Havoc{n} (no digest computed)",
      encodes=["LmotsParameter::append_checksum_to", "LmotsParameter::checksum", "util::coef::coef", "LmotsAlgorithm::construct_parameter"],
      forall=f"every {n}-byte digest Q (all {8*n} bits symbolic)", bounds="exact (loop bound = u+2)", unwind=8 * n // w + 2)
    H("C12", "quick", "c12", f"c12_d3_table_n{n}_w{w}", timeout=120, model=f"Havoc{n}",
      encodes=["LmotsAlgorithm::construct_parameter", "LmotsAlgorithm::get_from_type", "constants::get_num_winternitz_chains"],
      forall="constant table entry vs the Appendix-B formula evaluated in the harness", bounds="exact")
    H("C12", "quick", "c12", f"c12_d4_cksm_digits_n{n}_w{w}", timeout=120, model=f"Havoc{n}",
      encodes=["util::coef::coef", "LmotsAlgorithm::construct_parameter (p, ls)"],
      forall="every attainable checksum value S <= u(2^w-1)", bounds="exact")
H("C12", "quick", "c12", "c12_d3_unknown_type_codes", timeout=120, model="Havoc32", encodes=["LmotsAlgorithm::get_from_type"],
  forall="every u32 type code outside 1..4", bounds="exact")

# ---------------------------------------------------------------------------------------------
# C13 / C05 / C03 counter kernels (one harness instance per level count L; heights symbolic)
def _shape(L):
    return f"every list of {L} levels over heights {{2(hook),5,10,15,20,25}} (6^{L} tuples, symbolic), every counter below 2^(sum h)"
for L in range(1, 9):
    t = "quick" if L <= 4 else "thorough"
    for _p in ("C13", "C05"):
      H(_p, t, "c13", f"c13_increment_l{L}", flagset="std64", timeout=1200, model="none (pure arithmetic)", encodes=["CompressedUsedLeafsIndexes::increment"],
      forall=_shape(L) + ", sum h <= 63", bounds="exact; unwind 34 covers u64::pow and the level loops", unwind=34)
    for _p in ("C13", "C05"):
      H(_p, t if L <= 3 or _p == "C13" else "thorough", "c13", f"c13_lifetime_l{L}", flagset="std64", timeout=3600, model="none", encodes=["HssPrivateKey::get_lifetime", "CompressedUsedLeafsIndexes::to", "LmsParameter::number_of_lm_ots_keys"],
      forall=_shape(L) + ", sum h <= 63; key state as HssPrivateKey::from leaves it (upper levels used q_i+1, bottom q_L)", bounds="exact", unwind=34)
    for _p in ("C13", "C03"):
      H(_p, t, "c13", f"c13_digits_l{L}", flagset="std64", timeout=3600, model="none", encodes=["CompressedUsedLeafsIndexes::to"],
      forall=_shape(L) + ", sum h <= 63", bounds="exact", unwind=34)
    for _p in ("C13", "C03"):
      H(_p, "thorough" if L > 3 else "quick", "c13", f"c13_injective_l{L}", flagset="std64", timeout=3600, model="none", encodes=["CompressedUsedLeafsIndexes::to"],
      forall=_shape(L) + " twice (two counters), sum h <= 63, every prefix length", bounds="exact", unwind=34)
    if L >= 3:
        H("C13", t, "c13", f"c13_tall_l{L}", flagset="std64", timeout=3600, model="none",
          encodes=["CompressedUsedLeafsIndexes::to", "CompressedUsedLeafsIndexes::increment", "HssPrivateKey::get_lifetime"],
          forall=f"every list of {L} levels with sum h >= 64, every 64-bit counter", bounds="exact", unwind=34)
    H("C05", "quick" if L <= 1 else "thorough", "c13", f"c05_wipe_l{L}", flagset="std64", timeout=3600, model="Havoc16 (no digest computed)",
      encodes=["ReferenceImplPrivateKey::increment", "ReferenceImplPrivateKey::wipe", "ReferenceImplPrivateKey::to_binary_representation",
               "ReferenceImplPrivateKey::generate", "CompressedParameterSet::from/to", "CompressedUsedLeafsIndexes::increment"],
      forall=_shape(L) + ", every 16-byte seed", bounds="exact; n = 16", unwind=34)

# ---------------------------------------------------------------------------------------------
# C04 callback protocol (the contract harnesses also serve C05 refusal and C11 totality)
_sign_fns = ["hss::hss_sign / hss_sign_core", "ReferenceImplPrivateKey::from_binary_representation / increment / to_binary_representation",
             "CompressedParameterSet::to", "CompressedUsedLeafsIndexes::to / increment", "HssPrivateKey::from / get_expanded_aux_data",
             "HssSignature::sign / to_binary_representation", "Signature::from_bytes_verbose"]
_real_fns = _sign_fns + ["LmsSignature::sign / build_authentication_path", "lms::helper::get_tree_element", "lm_ots::keygen::*", "LmotsSignature::sign",
                         "LmsPrivateKey::use_lmots_private_key", "generate_signature_randomizer / SeedDerive"]
_sum_stub = DEFAULT_STUBS + ["HashChain::do_actual_hash_chain overridden by HavocSum16 (one havoc step)"]
for c in (0, 1, 2, 3):
    H("C04", "experimental", "c04", f"c04_protocol_real_h2w8_l1_c{c}", config="l1w8h5", flagset="eq", timeout=14400,
      model="HavocSum16 (digests havoc, Winternitz chain summarised by the HashChain override)", encodes=_real_fns, unwind=36,
      forall=f"1 level H2(hook)/W8, counter {c} (one instance per counter value 0..3): every 16-byte seed, every message of length 0..4, both callback outcomes",
      bounds="4-leaf tree, W8 (18 chains), n=16", stubs=_sum_stub)
for c in (0, 3, 4, 15):
    H("C04", "experimental", "c04", f"c04_protocol_real_h2w8_l2_c{c}", config="l2w8h5", flagset="eq", timeout=28800, model="HavocSum16",
      encodes=_real_fns + ["lms::generate_key_pair", "generate_child_seed_and_lms_tree_identifier"], unwind=36,
      forall=f"2 levels H2/W8, counter {c} (instances 0, 3, 4 = roll-over into a fresh subtree, 15 = last leaf): seed, message, both outcomes",
      bounds="4-leaf trees, W8, n=16", stubs=_sum_stub)
for c in (0, 2, 3):
    H("C04", "experimental", "c04", f"c04_signing_key_entry_h2w8_l1_c{c}", config="l1w8h5", flagset="eq", timeout=14400, model="HavocSum16",
      encodes=_real_fns + ["SigningKey::from_bytes / try_sign / try_sign_with_aux / get_lifetime / as_slice"], unwind=36,
      forall=f"1 level H2/W8, counter {c}: seed, 3-byte message; sign, lifetime before/after, second sign after exhaustion", bounds="4-leaf tree, W8, n=16", stubs=_sum_stub)
_contract_stubs = DEFAULT_STUBS + ["lms::generate_key_pair -> contracts::model_generate_key_pair (same private key, havoc root)",
                                   "LmsSignature::sign -> contracts::model_lms_sign (consumes exactly one leaf or refuses; no hash values)",
                                   "HashChain::do_actual_hash_chain overridden by HavocSum16"]
_pre_fns = ["hss::hss_sign / hss_sign_core (up to the expansion)", "ReferenceImplPrivateKey::from_binary_representation", "CompressedParameterSet::from_slice / to",
            "HssParameter::new", "hss::aux::hss_is_aux_data_used / hss_expand_aux_data / hss_get_aux_data_len / hss_optimal_aux_level / hss_store_aux_marker / compute_hmac",
            "HssPrivateKey::get_expanded_aux_data", "SigningKey::from_bytes / get_lifetime"]
for prop in ("C04", "C11"):
    for name, n, aux in (("c04_malformed_key_n16", 16, False), ("c04_malformed_key_aux_n16", 16, True), ("c04_malformed_key_n32", 32, False)):
        H(prop, "experimental" if aux else "quick", "c04", name, config="w8", timeout=3600, model=f"HavocSum{n}", encodes=_pre_fns, unwind=36, replayable="try",
          stubs=DEFAULT_STUBS + ["HssPrivateKey::from -> contracts::model_from_fails (the expansion always fails: every path ends in an error)"],
          forall="every private-key byte string of every length 0..56 (all 256 values of every byte), 2-byte message, both callback outcomes"
                 + (", every auxiliary buffer of every length 0..48 and content" if aux else ""),
          bounds=f"n={n} (valid key length {16+n}); build configuration w8 (8 levels, heights <= 25, W8 only)")
H("C04", "quick", "c04", "c04_sign_fails_no_callback", config="l1w8h5", timeout=1800, model="HavocSum16", encodes=_sign_fns, unwind=36, replayable=False,
  stubs=DEFAULT_STUBS + ["HssSignature::sign -> contracts::model_hss_sign_fails"], forall="1 level H2/W8, counter 1, every seed, both callback outcomes; signing proper fails",
  bounds="n=16")
_light_stubs = DEFAULT_STUBS + ["HssPrivateKey::from -> contracts::model_from_light (one LMS private key per level with the level's parameters and current leaf; no LMS layer)",
                               "HssSignature::sign -> contracts::model_hss_sign_light (consumes one bottom leaf or refuses; leaf index of every level)",
                               "HssSignature::to_binary_representation -> contracts::model_hss_signature_bytes (fixed 36-byte record of the leaf indices)",
                               "HashChain::do_actual_hash_chain overridden by HavocSum16"]
_tail_fns = ["hss::hss_sign / hss_sign_core", "ReferenceImplPrivateKey::from_binary_representation / increment / wipe / to_binary_representation",
             "CompressedParameterSet::to", "CompressedUsedLeafsIndexes::to / increment", "Signature::from_bytes_verbose", "SigningKey::get_lifetime", "HssPrivateKey::get_lifetime"]
for prop in ("C03", "C04", "C05"):
    # multi-level instances: not validated on the unchanged tree within this round (kani-driver / CBMC memory) -> experimental
    for name, cfg, tier in (("c04_protocol_light_h20", "l1w8", "quick"), ("c04_protocol_light_h25_h5", "l2w8", "experimental"),
                            ("c04_protocol_light_h5_h10_h25", "l3w8", "experimental"), ("c04_protocol_light_8x_h5", "w8", "experimental")):
        H(prop, tier, "c04", name, config=cfg, timeout=7200, model="HavocSum16", encodes=_tail_fns, unwind=36, replayable=False, stubs=_light_stubs,
          forall="concrete shape (type bytes assigned), every counter of the complete lifetime, every seed, both callback outcomes: lifetime query, one signing call, "
                 "callback count / argument / result, leaf index of every level in the released record",
          bounds="n=16, W8; both HSS-level operations by contract")
for prop in ("C03", "C05", "C01"):
    for name, cfg, tier in (("c03_expand_and_sign_h20", "l1w8", "quick"), ("c03_expand_and_sign_h25_h5", "l2w8", "experimental"), ("c03_expand_and_sign_h5_h10_h25", "l3w8", "experimental")):
        H(prop, tier, "c04", name, config=cfg, timeout=7200, model="HavocSum16", unwind=36, replayable=False, stubs=_contract_stubs,
          encodes=["ReferenceImplPrivateKey::from_binary_representation", "HssPrivateKey::from / get_lifetime", "HssSignature::sign", "CompressedUsedLeafsIndexes::to"],
          forall="concrete shape, every counter of the complete lifetime, every seed: expansion + HSS signing; used leaf of every level, signatures over child keys, "
                 "bottom leaf in the released structure, refusal of a second signature", bounds="n=16, W8; LMS layer by contract")
    for name, cfg, tier in (("c03_step_contract_h20", "l1w8", "thorough"), ("c03_step_contract_h25_h5", "l2w8", "thorough"),
                            ("c03_step_contract_h5_h10_h25", "l3w8", "thorough"), ("c03_step_contract_h15_h15_h15_h15", "l4w8", "thorough"), ("c03_step_contract_8x_h5", "w8", "thorough")):
        H(prop, "experimental", "c04", name, config=cfg, timeout=14400, model="HavocSum16", encodes=_sign_fns + ["SigningKey::get_lifetime", "HssPrivateKey::get_lifetime"],
          unwind=36, replayable=False, stubs=_contract_stubs,
          forall="concrete shape (type bytes assigned), every counter of the complete lifetime (up to 2^60), every seed, both callback outcomes",
          bounds="n=16, W8; LMS layer by contract (tall trees are not built)")

# ---------------------------------------------------------------------------------------------
# C15 fast-verify cost evaluation kernel (the only fast-verify mechanism compiled without the feature)
for n, w in PAIRS:
    H("C15", "quick", "c15", f"c15_eval_n{n}_w{w}", timeout=900, model=f"Havoc{n} (no digest computed)",
      encodes=["LmotsParameter::fast_verify_eval_init", "LmotsParameter::fast_verify_eval", "util::coef::coef_helper", "LmotsParameter::append_checksum_to"],
      forall=f"every {n}-byte digest Q", bounds="exact", unwind=8 * n // w + 12)

# ---------------------------------------------------------------------------------------------
# C07 tables and layout
H("C07", "quick", "c07", "c07_length_tables", timeout=600, model="none", encodes=["constants::get_num_winternitz_chains / lmots_signature_length / lms_signature_length / lms_public_key_length",
  "LmsAlgorithm::get_from_type", "LmsParameter::number_of_lm_ots_keys"], forall="all 12 (n, w) x 6 heights (constants), every u32 LMS type code", bounds="exact")
for n in (16, 24, 32):
    H("C07", "quick", "c07", f"c07_lms_public_key_layout_n{n}", timeout=600, model=f"Havoc{n}", encodes=["LmsPublicKey::to_binary_representation"],
      forall="every tree identifier and root value", bounds="one (w, h) pair per n (type codes are constants of the parameter set)")
for n in (16, 32):
    H("C07", "quick" if n == 16 else "thorough", "c07", f"c07_lms_signature_layout_n{n}", config="w8", timeout=1800, model=f"Havoc{n}",
      encodes=["LmsSignature::to_binary_representation", "LmotsSignature::to_binary_representation"],
      forall="every leaf index, randomizer, chain value and path node content; 3 chain values, 2 path nodes",
      bounds="element counts 3 / 2 (the serialiser is a loop over elements; more elements repeat the same body)")

# ---------------------------------------------------------------------------------------------
# C08 blob layout / nibble packing / public key layout
for L in range(1, 9):
    H("C08", "quick" if L in (1, 8) else "thorough", "c08", f"c08_blob_n32_l{L}", timeout=1800, model="Havoc32 (no digest computed)",
      encodes=["ReferenceImplPrivateKey::generate / to_binary_representation / from_binary_representation", "CompressedParameterSet::from / to / from_slice",
               "CompressedUsedLeafsIndexes::new / from_slice", "HssParameter::new"],
      forall=f"every list of {L} levels over all 4 W x 5 H (symbolic), every 32-byte seed, every 64-bit counter", bounds="exact", unwind=36)
H("C08", "quick", "c08", "c08_blob_n24_l2", timeout=1800, model="Havoc24", encodes=["as c08_blob_n32_*"], forall="2 levels, all W x H, seed, counter; n = 24", bounds="exact", unwind=36)
H("C08", "quick", "c08", "c08_blob_n16_l3", timeout=1800, model="Havoc16", encodes=["as c08_blob_n32_*"], forall="3 levels, all W x H, seed, counter; n = 16", bounds="exact", unwind=36)
H("C08", "quick", "c08", "c08_blob_length_check", timeout=900, model="Havoc16/24/32", encodes=["ReferenceImplPrivateKey::from_binary_representation"],
  forall="every byte string of every length 0..56, for n = 16, 24, 32", bounds="exact", unwind=36)
for n in (16, 24, 32):
    H("C08", "quick", "c08", f"c08_hss_public_key_layout_n{n}", timeout=900, model=f"Havoc{n}", encodes=["HssPublicKey::to_binary_representation", "LmsPublicKey::to_binary_representation"],
      forall="every level count 1..8, all W x H type codes, every identifier and root", bounds="exact", unwind=36)

# ---------------------------------------------------------------------------------------------
# C16 zeroize (real zeroize code; tinyvec default NOT stubbed)
_z_stub = ["zeroize::optimization_barrier -> no-op (empty asm! block; the wipe itself is the volatile writes around it)"]
for name in ("c16_seed_zeroize_and_drop", "c16_seed_and_identifier_zeroize_and_drop", "c16_reference_private_key_zeroize_and_drop",
             "c16_lms_private_key_zeroize_and_drop", "c16_lmots_private_key_zeroize", "c16_lmots_private_key_drop"):
    H("C16", "quick", "c16", name, config="w8", timeout=3600, model="Havoc32 (n = 32: the whole 32-byte seed container is observable)", stubs=_z_stub,
      encodes=["derive(Zeroize, ZeroizeOnDrop) glue of the type", "zeroize::Zeroize for [u8; N] / u32 / u64 (volatile writes)", "util::ArrayVecZeroize (DefaultIsZeroes)", "drop glue"],
      forall="every content of every secret field (seed bytes, identifier, leaf index, counter, every chain value up to the container capacity)",
      bounds="build configuration w8: LM-OTS key container capacity 34 chain values; exact", unwind=52)

# ---------------------------------------------------------------------------------------------
# C02 structural rejections / C06 verify-level totality
_ver_fns = ["hss::hss_verify", "InMemoryHssSignature::new", "InMemoryHssSignedPublicKey::new", "InMemoryLmsSignature::new", "InMemoryLmotsSignature::new",
            "InMemoryHssPublicKey::new", "InMemoryLmsPublicKey::new", "hss::verify::verify", "lms::verify::verify / generate_public_key_candidate",
            "lm_ots::verify::generate_public_key_candidate", "LmotsParameter::append_checksum_to", "util::coef::coef", "HashChain::do_hash_chain"]
for prop in ("C02", "C06"):
    for name, tier in (("c02_verify_structs_l1", "quick"), ("c02_verify_structs_l1_pk_level0", "quick"), ("c02_verify_structs_l1_pk_level2", "quick"),
                       ("c02_verify_structs_l2", "quick"), ("c02_verify_structs_l2_pk_level1", "thorough"), ("c02_verify_structs_l2_pk_level3", "thorough")):
        H(prop, tier, "c02", name, timeout=3600, model="HavocSum16 (every digest havoc: the root comparison can always be made to succeed)",
          encodes=["hss::verify::verify", "lms::verify::verify / generate_public_key_candidate", "lm_ots::verify::generate_public_key_candidate",
                   "InMemoryLmsPublicKey::new", "InMemoryLmsSignature::get_path", "InMemoryLmotsSignature::get_signature_data",
                   "LmotsParameter::append_checksum_to", "util::coef::coef", "HashChain::do_hash_chain"], unwind=20,
          forall="parsed signature structure of the n=16/W8/H5 shape with symbolic leaf indices, randomizers, chain values, paths and (2 levels) child public key bytes; "
                 "public key with symbolic type codes, identifier and root; level counts concrete per instance; 3-byte message",
          bounds="one- and two-level shapes of n=16/W8/H5; the parsers that produce the structures are covered by c06_parse_* and c02_parse_agreement_*",
          stubs=DEFAULT_STUBS + ["HashChain::do_actual_hash_chain overridden by HavocSum16"])
    for name in ("c02_parse_agreement_l1", "c02_parse_agreement_l2"):
        H(prop, "quick", "c02", name, timeout=1800, model="HavocSum16 (parsers compute no digest)", encodes=_parse_fns + ["InMemoryHssPublicKey::new"], unwind=8,
          forall="exact-shape byte strings (type codes and level count assigned), every other byte symbolic; lengths exact and +-1",
          bounds="n=16/W8/H5, one and two levels")

# ---------------------------------------------------------------------------------------------
# transcripts under the recording hashers: derivation (C08), signing content (C07), tree identity (C03)
_rec = "RecN: digests come from a symbolic tape, every query's first 64 bytes, length and a fingerprint of the whole query are recorded"
for n in (16, 24, 32):
    for prop in ("C08", "C09") if n == 32 else ("C08", "C01"):
        H(prop, "quick", "c08d", f"c08_root_seed_derivation_n{n}", timeout=900, model=_rec, encodes=["ReferenceImplPrivateKey::generate_root_seed_and_lms_tree_identifier", "Seed::from / as_slice"],
          forall="every 32-byte seed container content, every digest value", bounds="exact", unwind=70)
    for prop in ("C08", "C03", "C07"):
        H(prop, "quick", "c08d", f"c08_child_seed_and_randomizer_n{n}", timeout=900, model=_rec,
          encodes=["generate_child_seed_and_lms_tree_identifier", "generate_signature_randomizer", "SeedDerive::seed_derive"],
          forall="every parent seed, identifier and 32-bit leaf index, every digest value", bounds="exact", unwind=70)
for name in ("c08_ots_private_key_n16_w8", "c08_ots_private_key_n24_w8", "c08_ots_private_key_n32_w8", "c08_ots_private_key_n16_w4"):
    H("C08", "quick" if name.endswith("n16_w8") else "experimental", "c08d", name, config="w8" if name.endswith("w8") else "w4", timeout=3600, model=_rec, encodes=["lm_ots::keygen::generate_private_key"],
      forall="every seed, identifier, 32-bit leaf index, every digest value", bounds="p <= 35 chains (W8 for all n, W4 for n=16); the 265-chain case (n=32, W1) is outside", unwind=70)
_recsum = _rec + "; Winternitz chain recorded as one summarised step (HashChain override), the default loop is covered by c07_chain_default_loop_*"
for name in ("c08_ots_public_key_n16_w8", "c08_ots_public_key_n32_w8", "c08_ots_public_key_n16_w4"):
    H("C08", "thorough" if name.endswith("n16_w8") else "experimental", "c08d", name, config="w8" if name.endswith("w8") else "w4", timeout=7200, model=_recsum, encodes=["lm_ots::keygen::generate_public_key", "HashChain::prepare_hash_chain_data / do_hash_chain"],
      forall="every chain start value, identifier, leaf index, every digest value", bounds="p <= 35 chains", unwind=70)
for half in ("sign", "candidate"):
    for inst in ("n16_w8", "n16_w4", "n32_w8"):
        for prop in ("C07", "C01", "C02") if half == "candidate" else ("C07", "C01"):
            # experimental: CBMC aborts ("appears to have run out of memory") on the smallest instance, with and without a pinned digest
            H(prop, "experimental", "c08d", f"c07_ots_{half}_transcript_{inst}", config="w8" if inst.endswith("w8") else "w4", timeout=7200, model=_recsum, unwind=70,
              encodes=(["LmotsSignature::sign / sign_core / calculate_signature / calculate_message_hash"] if half == "sign" else ["lm_ots::verify::generate_public_key_candidate"])
                      + ["LmotsParameter::append_checksum_to", "util::coef::coef", "HashChain::do_hash_chain"],
              forall="every chain start value / signature value, identifier, leaf index, randomizer, message of length 0..5, every digest value; reference digits from the Appendix-B formula",
              bounds="p <= 35 chains; message <= 5 bytes (longer messages only lengthen H::update)")
for name in ("c07_chain_default_loop_n16", "c07_chain_default_loop_n16_tail", "c07_chain_default_loop_n16_empty", "c07_chain_default_loop_n32"):
    for prop in ("C07", "C08"):
        H(prop, "quick", "c08d", name, timeout=1800, model=_rec, unwind=70,
          encodes=["HashChain::do_hash_chain", "HashChain::do_actual_hash_chain (default body)", "HashChain::prepare_hash_chain_data"],
          forall="every identifier, leaf index, 16-bit chain index and start value; start position / step count per instance: (0,3), (253,2), (7,0), (0,2)",
          bounds="at most 3 consecutive steps (the loop body is the same for every j)")

# ---------------------------------------------------------------------------------------------
# C01 completeness: LM-OTS round trip (ToyLin family) and the signer's authentication-path rule
_toylin = ("ToyLinN: deterministic toy hash keyed by a symbolic 32-byte salt (a family of functions); Winternitz chain = composable XOR-mask summary "
           "(chain(a,max) o chain(0,a) = chain(0,max) holds by algebra); completeness is hash-agnostic, so a failure under any deterministic H is a structural fault")
# (the direct ToyLin round-trip harnesses c01_l1_ots_roundtrip_* exist in proofs/c01.rs but are not registered: CBMC ran out of
#  memory on the smallest instance; LM-OTS completeness is decided by the transcript harnesses c07_ots_sign_and_candidate_* and
#  c08_ots_public_key_* instead: signer and verifier use the same Q pre-image and the same digits a_i, signer chain i runs 0 -> a_i from
#  x_i, verifier chain i runs a_i -> 2^w-1 from y_i, public key chain i runs 0 -> 2^w-1 from x_i)
for h in (5, 10, 15, 20, 25):
    for prop in ("C01", "C07"):
        H(prop, "quick" if h <= 10 else "thorough", "c01", f"c01_l2_auth_path_rule_h{h}", config="w8", timeout=3600, model="ToyLin16 (only used for node(index) of the tree contract)", unwind=36,
          encodes=["LmsSignature::sign / build_authentication_path", "LmsPrivateKey::use_lmots_private_key"], replayable=False,
          forall=f"every leaf index 0..2^{h}-1 (symbolic), every identifier", bounds="exact",
          stubs=DEFAULT_STUBS + ["lms::helper::get_tree_element -> node(index) = toy(index) (no tree is built)", "LmotsSignature::sign -> empty LM-OTS signature",
                                 "lm_ots::keygen::generate_private_key -> key without chain values"])

# C06 / C01 / C14: level-count boundary of the signature parser under a 2-level build
for k in range(4):
    for prop in (("C06", "C14") if k >= 2 else ("C06", "C01", "C14")):
        H(prop, "quick", "c06::level_capacity", f"c06_level_count_{k}_of_2", config="l2w8h5", timeout=1800, model="Havoc16 (parsers compute no digest)", encodes=_parse_fns, unwind=8,
          forall=f"level count field = {k}, followed by that many well-formed signed public keys (type codes assigned, everything else symbolic) and a final signature",
          bounds="build configuration: 2 levels (signed-key container capacity 1); n=16/W8/H5 shapes")

# ---------------------------------------------------------------------------------------------
# C10 auxiliary data: level selection, layout, MAC guard
for name in ("c10_level_selection_h5_n16", "c10_level_selection_h10_n32", "c10_level_selection_h15_n24", "c10_level_selection_h20_n32", "c10_level_selection_h25_n16"):
    H("C10", "quick", "c10", name, timeout=1200, model="none (pure arithmetic)", encodes=["hss::aux::hss_optimal_aux_level", "hss::aux::hss_get_aux_data_len"], unwind=16,
      forall="every buffer length 0..2^32", bounds="one (height, n) pair per harness")
for name in ("c10_mac_guard_exact_tail", "c10_mac_guard_missing_tail", "c10_mac_guard_short_tail", "c10_mac_guard_long_tail"):
    for prop in (("C10", "C09") if name == "c10_mac_guard_exact_tail" else ("C10",)):
        H(prop, "thorough" if name in ("c10_mac_guard_short_tail", "c10_mac_guard_long_tail") else "quick", "c10", name, timeout=3600, model=_rec, unwind=70,
          encodes=["hss::aux::hss_expand_aux_data", "hss::aux::compute_hmac / compute_hmac_ipad / compute_hmac_opad / compute_seed_derive", "hss::aux::hss_is_aux_data_used"],
          forall="every buffer content (level word assigned: levels 1 and 3, n=16), every seed, every digest value; tail of 16 / 0 / 15 / 17 bytes after the level area",
          bounds="level area 164 bytes")
H("C10", "quick", "c10", "c10_fresh_buffer_layout_and_finalize", timeout=3600, model=_rec, unwind=70,
  encodes=["HssPrivateKey::get_expanded_aux_data", "hss::aux::hss_get_aux_data_len / hss_optimal_aux_level / hss_store_aux_marker / hss_expand_aux_data / hss_finalize_aux_data"],
  forall="every content of a 700-byte fresh buffer (first byte 0), every seed, every digest value", bounds="top tree H5, n=16 (levels 5, 3, 1)")

H("C10", "quick", "c10", "c10_mac_guard_even_levels", timeout=3600, model=_rec, unwind=70,
  encodes=["hss::aux::hss_expand_aux_data", "hss::aux::compute_hmac"], forall="as c10_mac_guard_exact_tail with levels 2 and 4 (even levels, as cached for top trees of height 10/20)", bounds="level area 324 bytes")
for prop in ("C10", "C11"):
    for name in ("c10_expand_arbitrary_len40_seed", "c10_expand_arbitrary_len40_noseed", "c10_expand_arbitrary_len40_lowlevels", "c10_expand_arbitrary_len3_seed", "c10_expand_arbitrary_len4_seed",
                 "c10_expand_arbitrary_len1_noseed", "c10_expand_arbitrary_len0", "c10_expand_arbitrary_len8_noseed"):
        # the 40-byte instances did not finish within 20 minutes: experimental (not part of any registered command)
        H(prop, "experimental" if ("len40" in name or "len4_" in name or "len8_" in name) else "quick", "c10", name, timeout=3600, model="Havoc16", unwind=40,
          encodes=["hss::aux::hss_is_aux_data_used", "hss::aux::hss_expand_aux_data"],
          forall="every buffer content; one byte of the level word symbolic per instance (byte 0 = marker and level bits 24..30, or byte 3 = levels 0..7); length and seed presence per instance",
          bounds="cap 40 bytes")
for prop in ("C04", "C09", "C05"):
    H(prop, "quick" if prop == "C09" else "thorough", "c04", "c04_signing_key_entry_light_h5", config="l1w8h5", timeout=7200, model="HavocSum16", unwind=36, replayable=False, stubs=_light_stubs,
      encodes=_tail_fns + ["SigningKey::from_bytes / try_sign / try_sign_with_aux / as_slice"],
      forall="1 level H5/W8 (type byte assigned), every counter 0..31, every seed: in-memory key after try_sign, lifetime, second sign after exhaustion", bounds="n=16")
    H(prop, "experimental", "c04", "c04_signing_key_entry_light_h10_h5", config="l2w8", timeout=14400, model="HavocSum16", unwind=36, replayable=False, stubs=_light_stubs,
      encodes=_tail_fns + ["SigningKey::*"], forall="2 levels H10,H5 / W8, every counter 0..2^15-1, every seed", bounds="n=16")
    H(prop, "experimental", "c04", "c04_signing_key_entry_contract_h5", config="l1w8h5", timeout=14400, model="HavocSum16", unwind=36, replayable=False, stubs=_contract_stubs,
      encodes=_sign_fns + ["SigningKey::*"], forall="as the light variant, with the real expansion and HSS signing over the LMS contract", bounds="n=16")
# C14: the same harnesses under reduced / non-uniform build configurations
for cfg in ("default", "w8", "l1w8h5", "l2w8h5", "l2mixed", "l3mixed", "l3w8h5"):
    H("C14", "quick", "c14", "c14_capacities_cover_the_limits", config=cfg, timeout=600, model="none (constants)", unwind=20,
      encodes=["build.rs -> constants::{MAX_ALLOWED_HSS_LEVELS, TREE_HEIGHTS, WINTERNITZ_PARAMETERS, MAX_TREE_HEIGHT, MIN_WINTERNITZ_PARAMETER}",
               "constants::{MAX_NUM_WINTERNITZ_CHAINS, MAX_LMS_SIGNATURE_LENGTH, MAX_HSS_SIGNATURE_LENGTH, get_hss_signature_length}"],
      forall="the constants generated for this configuration vs the RFC length formulas at every level's worst case, for every admissible level count",
      bounds="exact for the configuration")
for cfg in ("l2w8h5", "l1w8h5"):
    H("C14", "quick", "c04", "c04_malformed_key_n16", config=cfg, timeout=3600, model="HavocSum16", encodes=_pre_fns, unwind=36, replayable="try",
      stubs=DEFAULT_STUBS + ["HssPrivateKey::from -> contracts::model_from_fails"],
      forall="every private-key byte string of every length 0..40 under a reduced build: keys using more levels / taller trees / smaller W than configured are refused",
      bounds="n=16")

# ---------------------------------------------------------------------------------------------
# C09 purity (2-run harnesses under the deterministic toy family)
H("C09", "quick", "c09", "c09_derivation_units_twice", flagset="eq", timeout=3600, model="ToySum16 (deterministic toy hash keyed by a symbolic salt)", unwind=40,
  encodes=["ReferenceImplPrivateKey::generate_root_seed_and_lms_tree_identifier", "generate_child_seed_and_lms_tree_identifier", "generate_signature_randomizer",
           "SeedDerive::seed_derive", "lm_ots::keygen::generate_private_key"],
  forall="every salt, two seeds, every leaf index; each unit run twice with an unrelated derivation in between", bounds="n=16, W8")
for name, tier in (("c09_sign_twice_contract_h5", "quick"), ("c09_sign_twice_contract_h5_h5", "thorough")):
    # experimental: the reachability witness of the one-level instance is unsatisfiable (harness vacuous for a reason not yet understood)
    H("C09", "experimental", "c09", name, config="l1w8h5" if name.endswith("_h5") and not name.endswith("h5_h5") else "l2w8h5", flagset="eq", timeout=7200, model="ToySum16", unwind=36, replayable=False, stubs=_contract_stubs,
      encodes=_sign_fns + ["SigningKey::from_bytes / try_sign"],
      forall="every salt, seed, counter of the lifetime, 3-byte message; sign twice through hbs_lms::sign with another key's signing in between, once through SigningKey::try_sign",
      bounds="n=16; LMS layer by contract (deterministic under the toy family)")

H("C16", "quick", "c13", "c05_wipe_l1", flagset="std64", timeout=3600, model="Havoc16", unwind=34, encodes=["ReferenceImplPrivateKey::increment / wipe / to_binary_representation"],
  forall="1 level, all heights, every counter and seed: the blob handed on after the last leaf carries no seed byte", bounds="exact; n = 16")

# experimental: did not finish within 60 minutes (265 iterations of the recording hasher)
H("C08", "experimental", "c08d", "c08_ots_private_key_n32_w1_layout", timeout=7200, model="Rec32 with on-the-fly layout expectation (265 queries exceed the tape)", unwind=270,
  encodes=["lm_ots::keygen::generate_private_key"], forall="every seed, identifier and leaf index; all 265 chain indices of (n=32, W1)", bounds="exact for p = 265")
for w in (1, 2, 4, 8):
    H("C07", "quick", "c12", f"c12_d1_coef_w{w}", timeout=300, model="none (pure function)", encodes=["util::coef::coef"], unwind=2,
      forall=f"every 34-byte string, every digit index i < 272/{w}", bounds="exact for the library's buffers")
H("C16", "quick", "c13", "c05_wipe_l2", flagset="std64", timeout=3600, model="Havoc16", unwind=34, encodes=["ReferenceImplPrivateKey::increment / wipe / to_binary_representation"],
  forall="2 levels, all heights (total height up to 50), every counter and seed: the blob handed on after the last leaf carries no seed byte", bounds="exact; n = 16")

for name in ("c10_bogus_level_word_all_ones", "c10_bogus_level_word_bit26", "c10_bogus_level_word_bit30"):
    for prop in ("C10", "C11"):
        H(prop, "quick", "c10", name, timeout=1800, model="Havoc16", unwind=40, encodes=["hss::aux::hss_expand_aux_data"],
          forall="level word concrete per instance (0xffffffff, 0x84000000, 0xc0000002: bits no real key produces), every other byte of a 40-byte buffer, with / without seed",
          bounds="cap 40 bytes")

# LM-OTS message-digest / candidate pre-images observed through the first and the last query of a whole
# signing / verification run (digests havoc, chains one havoc step)
for name, tier in (("c07_ots_preimage_ends_n16_w8", "quick"), ("c07_ots_preimage_ends_n32_w8", "thorough")):
    for prop in ("C07", "C01", "C02"):
        H(prop, tier, "c08d", name, config="w8", timeout=3600, unwind=70,
          model="RecEndsN: first and last digest query recorded (head, length), all queries counted; digests havoc; Winternitz chain one havoc step",
          encodes=["LmotsSignature::sign / sign_core / calculate_message_hash / calculate_signature", "lm_ots::verify::generate_public_key_candidate"],
          forall="every chain start value / signature value, identifier, leaf index, randomizer, message of length 0..5: Q pre-image I|q|0x8181|C|message for signer and verifier, "
                 "Kc pre-image I|q|0x8080|... of length 22 + p n, p chains each", bounds="message <= 5 bytes; W8; the digit-driven chain positions are not observed")
