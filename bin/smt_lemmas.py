"""C12 side lemmas, emitted as SMT-LIB from the parameter table the library under test computes
(read at run time through harness/examples/dump_params.rs) and discharged by z3 AND cvc5.

 (i)  integers:    d_i >= d'_i for all i < u, d != d'  =>  sum(2^w-1-d_i) < sum(2^w-1-d'_i)
 (ii) bit-vectors: S < S' <= u(2^w-1)  =>  some base-2^w digit (v digits, most significant first) of
                   (S << ls) is smaller than the corresponding digit of (S' << ls)

Each lemma is asserted negated; `unsat` from both solvers = holds. Any `(error` line, `unknown`, or
disagreement between the solvers is INCONCLUSIVE. A `sat` answer from both is a counterexample
(written to /verif/replays/C12/<name>.smt2 together with the model)."""
import json, os, re, subprocess, time

ROOT = os.path.dirname(os.path.dirname(os.path.abspath(__file__)))
HARNESS_DIR = os.environ.get("VERIF_HARNESS", os.path.join(ROOT, "harness"))
WORK = os.environ.get("VERIF_WORK", os.path.join(ROOT, ".work"))
REPLAY_DIR = os.environ.get("VERIF_REPLAY_DIR", os.path.join(ROOT, "replays"))
import shutil
Z3 = shutil.which("z3-new") or "z3"


def table():
    env = dict(os.environ)
    env["CARGO_NET_OFFLINE"] = "true"
    env["RUSTFLAGS"] = "--cfg hbs_lms_verif"
    for k in list(env):
        if k.startswith("HBS_LMS_"):
            del env[k]
    p = subprocess.run(["cargo", "run", "--quiet", "--offline", "--example", "dump_params", "--target-dir",
                        os.path.join(WORK, "target", "native-default")], cwd=HARNESS_DIR, env=env, capture_output=True, text=True, timeout=1200)
    if p.returncode != 0:
        raise RuntimeError("dump_params failed: " + p.stderr[-2000:])
    return json.loads(p.stdout.strip().splitlines()[-1])


def lemma_i(n, w, p):
    u = 8 * n // w
    mx = (1 << w) - 1
    L = ["(set-logic QF_LIA)"]
    for i in range(u):
        L.append(f"(declare-const d{i} Int)(declare-const e{i} Int)")
        L.append(f"(assert (and (<= 0 d{i}) (<= d{i} {mx}) (<= 0 e{i}) (<= e{i} {mx}) (>= d{i} e{i})))")
    L.append("(assert (or " + " ".join(f"(not (= d{i} e{i}))" for i in range(u)) + "))")
    sd = "(+ " + " ".join(f"(- {mx} d{i})" for i in range(u)) + ")"
    se = "(+ " + " ".join(f"(- {mx} e{i})" for i in range(u)) + ")"
    L.append(f"(assert (not (< {sd} {se})))")
    L.append("(check-sat)")
    return "\n".join(L)


def lemma_ii(n, w, p, ls):
    u = 8 * n // w
    v = p - u
    mx = u * ((1 << w) - 1)
    L = ["(set-logic ALL)", "(declare-const s (_ BitVec 16))", "(declare-const t (_ BitVec 16))",
         f"(assert (bvult s t))", f"(assert (bvule t (_ bv{mx} 16)))",
         f"(define-fun cs () (_ BitVec 16) (bvshl s (_ bv{ls} 16)))", f"(define-fun ct () (_ BitVec 16) (bvshl t (_ bv{ls} 16)))"]
    digs = []
    for j in range(v):
        hi = 15 - w * j
        lo = hi - w + 1
        if lo < 0:
            return None  # table inconsistent with a 16-bit checksum: reported by the Kani D3 harness
        digs.append(f"(bvult ((_ extract {hi} {lo}) cs) ((_ extract {hi} {lo}) ct))")
    L.append("(assert (not (or " + " ".join(digs) + ")))" if digs else "(assert true)")
    L.append("(check-sat)")
    return "\n".join(L)


def solve(text, path):
    open(path, "w").write(text)
    out = {}
    for name, cmd in (("z3", [Z3, "-T:120", path]), ("cvc5", ["cvc5", "--lang", "smt2", "--tlimit=120000", "--produce-models", path])):
        try:
            p = subprocess.run(cmd, capture_output=True, text=True, timeout=180)
            o = (p.stdout + p.stderr).strip()
        except subprocess.TimeoutExpired:
            o = "timeout"
        first = o.splitlines()[0].strip() if o else ""
        if first == "sat":
            out[name] = "sat"  # `(error` after sat only concerns get-value
        elif "(error" in o or first not in ("unsat",):
            out[name] = "inconclusive:" + o[:200]
        else:
            out[name] = first
        out[name + "_raw"] = o[:300]
    return out


def run(spec, outdir):
    t0 = time.time()
    res = {"name": spec["name"], "status": "SUCCESS", "queries": 0, "solvers": ["z3 5.1.0 (z3-new)", "cvc5 1.0"], "instances": [],
           "source": "harness/examples/dump_params.rs -> LmotsAlgorithm::construct_parameter (library under test)"}
    try:
        tab = table()
    except Exception as e:
        res.update(status="INCONCLUSIVE", reason=str(e), wall_s=time.time() - t0)
        return res
    d = os.path.join(outdir, "smt")
    os.makedirs(d, exist_ok=True)
    failed, inconcl = [], []
    for row in tab:
        n, w, p, ls = row["n"], row["w"], row["p"], row["ls"]
        if spec["name"] == "c12_lemma_i_sum_monotone":
            text = lemma_i(n, w, p)
        else:
            text = lemma_ii(n, w, p, ls)
        tag = f"n{n}_w{w}"
        if text is None:
            inconcl.append(tag + ": table does not fit a 16-bit checksum")
            continue
        path = os.path.join(d, f"{spec['name']}_{tag}.smt2")
        r = solve(text, path)
        res["queries"] += 2
        res["instances"].append({"pair": tag, "p": p, "ls": ls, "z3": r["z3"], "cvc5": r["cvc5"]})
        if r["z3"] == "unsat" and r["cvc5"] == "unsat":
            continue
        if r["z3"] == "sat" and r["cvc5"] == "sat":
            rdir = os.path.join(REPLAY_DIR, "C12")
            os.makedirs(rdir, exist_ok=True)
            rp = os.path.join(rdir, f"{spec['name']}_{tag}.smt2")
            open(rp, "w").write(text + "\n(get-model)\n")
            failed.append((tag, rp))
        else:
            inconcl.append(f"{tag}: z3={r['z3']} cvc5={r['cvc5']}")
    res["wall_s"] = time.time() - t0
    if inconcl:
        res.update(status="INCONCLUSIVE", reason="; ".join(inconcl))
    elif failed:
        res.update(status="FAILED", failed_list=failed)
    return res


def replay(path):
    text = open(path).read()
    p = subprocess.run(["z3", path], capture_output=True, text=True)
    print(p.stdout)
    return 1 if p.stdout.startswith("sat") else 0
