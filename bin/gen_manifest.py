#!/usr/bin/env python3
"""Regenerates /verif/MANIFEST.json from the table below (kept in one place so that the manifest is
always valid and consistent with the registry)."""
import json, os, subprocess, sys

ROOT = os.path.dirname(os.path.dirname(os.path.abspath(__file__)))
sys.path.insert(0, os.path.join(ROOT, "bin"))
import registry

TECH = "bounded model checking of the real code: Kani 0.68 harnesses (kani::any inputs) -> CBMC 6.11 -> CaDiCaL SAT"

# property -> (level text, level note, design ref, technique suffix)
CLAIMS = {
    "C01": (
        "Completeness is decided layer by layer on the real code: LM-OTS signer/verifier/public-key transcripts under recording hashers (same Q pre-image, same "
        "digits a_i, signer chain i runs 0->a_i from x_i, verifier a_i->2^w-1 from y_i, key 0->2^w-1 from x_i), the signer's authentication-path rule for every leaf "
        "of trees of height 5..25, the HSS signing structure for tall multi-level shapes over an LMS-layer contract with every counter of the lifetime symbolic "
        "(roll-over included), and parser acceptance of everything a key with the maximum level count produces.",
        "Layer composition (chain composability, LMS verify walk vs signer path) is argued on paper in DESIGN.md; LM-OTS instances n=16 (W8, W4) and n=32 (W8); "
        "real SHA-256/SHAKE256 digests and end-to-end runs on real trees are outside (symbolic execution of one 4-leaf signing run exceeds an hour).",
        "DESIGN.md section 3 C01", "Rec/RecSum transcript equality + LMS-layer contract stubs"),
    "C02": (
        "Structural half of RFC 8554 verification, for every input inside the shape bounds: hss::verify::verify on arbitrary parsed signature structures against "
        "arbitrary public keys accepts only if level counts, all type codes and leaf ranges are consistent (digests are havoc so a missing check cannot hide behind a "
        "hash mismatch), and the parsers map exact-shape byte strings to exactly the RFC fields at the RFC offsets and reject +-1 byte.",
        "Shapes n=16/W8/H5, one and two levels; level counts concrete per harness instance; the hash-dependent half (the digests that decide acceptance are the RFC's) "
        "is covered for LM-OTS by the C07 transcripts, the LMS tree walk is outside this round.",
        "DESIGN.md section 3 C02", ""),
    "C03": (
        "One-step obligations on an arbitrary valid state instead of explored histories: the counter->leaf decomposition is the mixed-radix rule and injective for every "
        "shape of 1..8 levels and every counter; one signing step hands the callback exactly counter+1 (or the wiped key), releases leaf indices that are the digits of "
        "the input counter on every level, and child tree identity depends only on (parent seed, parent I, parent leaf).",
        "Induction over the history is a paper step (DESIGN.md); HSS step over an LMS-layer contract; concurrency outside (Kani has none).",
        "DESIGN.md section 3 C03", "LMS-layer contract stubs; Rec transcripts"),
    "C04": (
        "For every key byte string (malformed, wiped, truncated) no callback and no signature; when signing proper fails no callback; for usable keys of tall shapes "
        "(every counter, both callback outcomes) exactly one callback with the complete successor and a signature iff it accepted; the in-memory SigningKey ends up with "
        "exactly that successor.",
        "Expansion / LMS layer replaced by contracts in the quick tier (listed as stubs in the evidence); real-code 4-leaf instances are thorough-tier only.",
        "DESIGN.md section 3 C04", "contract stubs for the layers below hss_sign_core"),
    "C05": (
        "Accounting arithmetic exact for every shape of 1..8 levels and every counter (lifetime = leaves - counter, increment, exhaustion threshold), wipe on the last "
        "leaf (counter 0, parameters 0xff, seed 0, same length) for every shape and seed, refusal of wiped keys, lifetime before/after one signature.",
        "Total height <= 63 for the exact arithmetic; HSS step over the LMS-layer contract.", "DESIGN.md section 3 C05", ""),
    "C06": (
        "Every byte string up to the stated caps, of every length, is pushed symbolically through the real parsers; verify-level code runs on arbitrary parsed "
        "structures; the level-count boundary is decided under a 2-level build. CBMC shows no panic, overflow, out-of-bounds index or unbounded loop inside the bounds.",
        "Bounded: buffers up to the per-harness caps; digests havoc; Winternitz chain summarised by the HashChain override in verify-level harnesses.",
        "DESIGN.md section 3 C06", ""),
    "C07": (
        "Tables and lengths against the RFC formulas for all 12 (n,w) x 6 heights; serialisation layout of LMS public keys and signatures for arbitrary field contents; "
        "LM-OTS signing content by transcript (Q pre-image I|q|0x8181|C|msg, chain i iterated a_i = coef(Q||Cksm(Q)) times with the Appendix-B shift, randomizer "
        "derivation, default chain loop step layout with 16-bit chain index), authentication path = sibling rule for every leaf.",
        "Deviating checksum shifts for three (n,w) pairs are reported under C12 (known findings); instances n=16/W8,W4 and n=32/W8.", "DESIGN.md section 3 C07", "Rec/RecSum transcripts"),
    "C08": (
        "Key blob layout / nibble packing / round trip for every parameter list (1..8 levels, all W x H), seed and counter; HSS public key layout; derivation transcripts "
        "against the hash-sigs layout: top-seed hashing (three 55-byte queries), child seed/identifier, x_q[i], K = H(I|q|0x8080|y..), chain step layout.",
        "Reference = my transcription of the hash-sigs layout (no reference binary in the sandbox); tree node hashing and real SHA/SHAKE wrappers outside this round.",
        "DESIGN.md section 3 C08", "Rec/RecSum transcripts"),
    "C09": (
        "2-run purity under a deterministic keyed toy hash family: derivation units twice with unrelated work in between; HSS-level signing twice from the same key bytes "
        "and once through the in-memory SigningKey (byte-identical signatures and successor keys); the aux MAC key depends on the seed.",
        "HSS level over the LMS-layer contract; other threads/processes are outside (Kani models no concurrency).", "DESIGN.md section 3 C09", "2-safety harness"),
    "C10": (
        "Level selection / shrunk length for every buffer length; layout of a fresh buffer; the MAC written by key generation and the MAC checked before any read-back are "
        "the same HMAC over exactly the level area with key H(0^20|0xfdfd|seed), compared over exactly n trailing bytes (odd and even cached levels; missing, short, long tail).",
        "Transparency (same keys/signatures with and without aux) end to end is outside this round; instances n=16.", "DESIGN.md section 3 C10", "Rec transcripts"),
    "C11": (
        "sign / get_lifetime for every key byte string of every length (n=16 and n=32), every small auxiliary buffer through the read-back path: error or result, never "
        "a panic, no callback on error paths.",
        "Expansion replaced by a failing contract; keygen with over-long parameter lists is covered by the native replay only.", "DESIGN.md section 3 C11", ""),
    "C12": (
        "D1 coef = RFC coef (all byte strings, indices, w); D2 checksum bytes = be16(sum << ls) for all 8n digest bits; D3 table = Appendix-B formula; D4 checksum digits carry the "
        "whole sum; two SMT side lemmas (z3 + cvc5) close domination-freeness. Exact for all 12 (n,w) pairs.",
        "The modus-ponens chaining D1, D2, D4, (i), (ii) => domination-freeness is a paper step. Three known findings (ls of (24,1), (16,1), (16,2)).",
        "DESIGN.md section 3 C12", "plus SMT-LIB lemmas discharged by z3 5.1 and cvc5 1.0"),
    "C13": (
        "Digit rule, injectivity, increment and lifetime arithmetic exact for every list of 1..8 levels over all heights and every counter (total height <= 63); "
        "taller lists: no arithmetic failure, same digit rule, no early exhaustion.",
        "One harness instance per level count (heights symbolic); quick tier covers 1..4 levels, thorough all 8.", "DESIGN.md section 3 C13", ""),
    "C14": (
        "Under each of several documented build configurations (levels 1/2/3, non-uniform per-level limits): generated capacities cover every admissible parameter list at every "
        "level's worst case; key blobs keep the default layout; keys beyond the limits are refused without panic; parser accepts the maximum level count and rejects more.",
        "Configurations: default, w8, l1w8h5, l2w8h5, l2mixed, l3mixed, l3w8h5; equality of signatures across configurations follows from the configuration-independent "
        "references of C07/C08 (paper).", "DESIGN.md section 3 C14", "one harness build per HBS_LMS_* configuration"),
    "C15": (
        "Only the mechanism compiled without the feature gate is decided: fast_verify_eval(Q) = sum of all p Winternitz digits of Q||Cksm(Q) for every digest and all 12 (n,w), no panic.",
        "Everything behind the fast_verify feature (trailer precondition, trailer-only mutation, leaf consumption, thread counts and interleavings, OS RNG) is outside: Kani 0.68 cannot "
        "compile the feature's dependency graph and models neither threads nor randomness.", "DESIGN.md section 3 C15", ""),
    "C16": (
        "For Seed, SeedAndLmsTreeIdentifier, ReferenceImplPrivateKey, LmsPrivateKey, LmotsPrivateKey: after zeroize() and after the real drop glue every secret byte "
        "(up to the container capacity, not only up to len) is zero, for every content; the exhausted key blob carries no seed byte.",
        "Real zeroize code, only the empty asm barrier stubbed; copies the compiler may leave in registers/stack moves are not observable.", "DESIGN.md section 3 C16", ""),
}

NOT_YET = {}


def main():
    props = [json.loads(l) for l in open(os.path.join(ROOT, "properties.jsonl"))]
    hooks_commits = subprocess.run(["git", "-C", "/repo", "log", "--format=%H %s"], capture_output=True, text=True).stdout.splitlines()
    hook_commits = [l.split()[0] for l in hooks_commits if "verif hooks" in l]
    checks, na = [], []
    have = {h["prop"] for h in registry.harnesses()} | {s["prop"] for s in registry.SMT_LEMMAS}
    for p in props:
        pid = p["id"]
        if pid in CLAIMS and pid in have:
            text, note, ref, tech = CLAIMS[pid]
            checks.append({
                "property_id": pid,
                "quick_cmd": f"bin/check {pid} --tier quick",
                "thorough_cmd": f"bin/check {pid} --tier thorough",
                "evidence_file": f"evidence/{pid}.json",
                "replay_cmd_template": "bin/check --replay {path}",
                "engine": "kani-cbmc",
                "level_claimed": {"category": "model_checking", "text": text, "design_ref": ref},
                "level_note": note,
                "technique": TECH + (("; " + tech) if tech else ""),
            })
        else:
            na.append({"property_id": pid, "reason": NOT_YET.get(pid, "check not built yet in this round (planned, see DESIGN.md section 3); no claim is made")})
    m = {
        "version": 1,
        "setup_cmd": "bin/check --setup",
        "hooks": {
            "guard": "--cfg hbs_lms_verif",
            "enable": "RUSTFLAGS='--cfg hbs_lms_verif' (set by bin/check for the harness crate and its path dependency /repo)",
            "baseline_off_cmd": "cd /repo && cargo test --workspace --no-fail-fast --offline",
            "source_commits": hook_commits,
            "add_only": True,
        },
        "engines": [
            {"name": "kani-cbmc", "path": "harness/", "serves_properties": sorted(have - {"SELFTEST", "SELFTEST_FAIL"}),
             "kind_free_text": "Kani 0.68 proof harnesses in an external crate with a path dependency on /repo; CBMC 6.11 + CaDiCaL decide them; driver bin/check"},
        ],
        "checks": checks,
        "not_applicable": na,
        "notes": "See DESIGN.md. Exit 2 of a check means inconclusive (timeout, memory, build failure, bound too small, vacuous harness, non-reproducing counterexample); it is never reported as success or as a violation.",
    }
    json.dump(m, open(os.path.join(ROOT, "MANIFEST.json"), "w"), indent=1)
    print("wrote MANIFEST.json:", len(checks), "checks,", len(na), "not_applicable")


if __name__ == "__main__":
    main()
