#!/usr/bin/env python3
"""Regenerates /verif/MANIFEST.json from the table below (kept in one place so that the manifest is
always valid and consistent with the registry)."""
import json, os, subprocess, sys

ROOT = os.path.dirname(os.path.dirname(os.path.abspath(__file__)))
sys.path.insert(0, os.path.join(ROOT, "bin"))
import registry

TECH = "bounded model checking of the real code: Kani 0.68 harnesses (kani::any inputs) -> CBMC 6.11 -> CaDiCaL SAT"

# property -> (level text, level note, design ref, technique suffix)
CLAIMS = {
    "C06": (
        "Every byte string up to the stated caps, of every length, is pushed symbolically through the real parsers "
        "and through hss_verify/VerifyingKey::verify; CBMC shows no panic, overflow, out-of-bounds index or unbounded "
        "loop exists inside the bounds (unwinding assertions on), or returns a concrete byte string that is replayed natively.",
        "Bounded: buffers up to the per-harness caps; digests are havoc (every hash behaviour included); "
        "Winternitz chain loop summarised by the HashChain override in verify-level harnesses.",
        "DESIGN.md section 3 C06", ""),
}

NOT_YET = {}


def main():
    props = [json.loads(l) for l in open(os.path.join(ROOT, "properties.jsonl"))]
    hooks_commits = subprocess.run(["git", "-C", "/repo", "log", "--format=%H %s"], capture_output=True, text=True).stdout.splitlines()
    hook_commits = [l.split()[0] for l in hooks_commits if "verif hooks" in l]
    checks, na = [], []
    have = {h["prop"] for h in registry.harnesses()} | {s["prop"] for s in registry.SMT_LEMMAS}
    for p in props:
        pid = p["id"]
        if pid in CLAIMS and pid in have:
            text, note, ref, tech = CLAIMS[pid]
            checks.append({
                "property_id": pid,
                "quick_cmd": f"bin/check {pid} --tier quick",
                "thorough_cmd": f"bin/check {pid} --tier thorough",
                "evidence_file": f"evidence/{pid}.json",
                "replay_cmd_template": "bin/check --replay {path}",
                "engine": "kani-cbmc",
                "level_claimed": {"category": "model_checking", "text": text, "design_ref": ref},
                "level_note": note,
                "technique": TECH + (("; " + tech) if tech else ""),
            })
        else:
            na.append({"property_id": pid, "reason": NOT_YET.get(pid, "check not built yet in this round (planned, see DESIGN.md section 3); no claim is made")})
    m = {
        "version": 1,
        "setup_cmd": "bin/check --setup",
        "hooks": {
            "guard": "--cfg hbs_lms_verif",
            "enable": "RUSTFLAGS='--cfg hbs_lms_verif' (set by bin/check for the harness crate and its path dependency /repo)",
            "baseline_off_cmd": "cd /repo && cargo test --workspace --no-fail-fast --offline",
            "source_commits": hook_commits,
            "add_only": True,
        },
        "engines": [
            {"name": "kani-cbmc", "path": "harness/", "serves_properties": sorted(have - {"SELFTEST", "SELFTEST_FAIL"}),
             "kind_free_text": "Kani 0.68 proof harnesses in an external crate with a path dependency on /repo; CBMC 6.11 + CaDiCaL decide them; driver bin/check"},
        ],
        "checks": checks,
        "not_applicable": na,
        "notes": "See DESIGN.md. Exit 2 of a check means inconclusive (timeout, memory, build failure, bound too small, vacuous harness, non-reproducing counterexample); it is never reported as success or as a violation.",
    }
    json.dump(m, open(os.path.join(ROOT, "MANIFEST.json"), "w"), indent=1)
    print("wrote MANIFEST.json:", len(checks), "checks,", len(na), "not_applicable")


if __name__ == "__main__":
    main()
