#!/usr/bin/env python3
"""Regenerates /verif/MANIFEST.json from the table below (kept in one place so that the manifest is
always valid and consistent with the registry)."""
import json, os, subprocess, sys

ROOT = os.path.dirname(os.path.dirname(os.path.abspath(__file__)))
sys.path.insert(0, os.path.join(ROOT, "bin"))
import registry

TECH = "bounded model checking of the real code: Kani 0.68 harnesses (kani::any inputs) -> CBMC 6.11 -> CaDiCaL SAT"

# property -> (level text, level note, design ref, technique suffix)
CLAIMS = {
    "C01": (
        "Completeness is only partly decided in this round, on the real code: the signer's authentication path is the sibling rule for every leaf of trees of height 5..25 (tree nodes by contract), the HSS expansion + signing structure for a tall one-level shape with every counter symbolic (LMS layer by contract), the top-level seed derivation hashes only the seed's n bytes (keygen and a reloaded key agree), and the parser accepts everything a key with the maximum level count produces.",
        'LM-OTS: signer and verifier hash the same Q pre-image I|q|0x8181|C|message and the candidate pre-image is I|q|0x8080|.. of length 22+pn (first/last-query recorder); NOT decided: the digit-driven chain positions of sign vs verify (those transcript harnesses abort in CBMC and are unregistered), the LMS verify walk, multi-level end-to-end runs, real SHA-256/SHAKE256 digests. The 8-level signing defect was found by a native run and repaired (0f30f77).',
        "DESIGN.md sections 3 and 8.3 C01", 'LMS-layer / tree-node contract stubs; Rec transcripts'),
    "C02": (
        'Structural half of RFC 8554 verification, for every input inside the shape bounds: hss::verify::verify on arbitrary parsed signature structures against arbitrary public keys accepts only if level counts, all type codes and leaf ranges are consistent (digests are havoc so a missing check cannot hide behind a hash mismatch), and the parsers map exact-shape byte strings to exactly the RFC fields at the RFC offsets and reject +-1 byte.',
        'Shapes n=16/W8/H5, one and two levels; level counts concrete per harness instance; the hash-dependent half (which bytes are hashed to decide acceptance) is not decided in this round.',
        "DESIGN.md sections 3 and 8.3 C02", ''),
    "C03": (
        'One-step obligations on an arbitrary valid state instead of explored histories: the counter->leaf decomposition is the mixed-radix rule and injective for every shape of 1..8 levels and every counter; expansion + signing of a tall one-level key uses exactly the digit of the input counter and refuses a second signature; one signing step hands the callback exactly counter+1 (or the wiped key) and releases iff accepted; child tree identity depends only on (parent seed, parent I, parent leaf).',
        'Induction over the history is a paper step (DESIGN.md); HSS-level operations over contracts (listed as stubs); multi-level HSS instances are unregistered (experimental); concurrency outside (Kani has none).',
        "DESIGN.md sections 3 and 8.3 C03", 'contract stubs; Rec transcripts'),
    "C04": (
        'For every key byte string of every length (malformed, wiped, truncated) no callback and no signature, and the exact acceptance set of the key loader; when signing proper fails no callback; for a usable tall one-level key (every counter, both callback outcomes) exactly one callback with the complete successor and a signature iff it accepted.',
        'Both HSS-level operations replaced by light contracts in the protocol harness, the expansion by a failing contract in the malformed-key harness (listed as stubs); real-code 4-leaf instances and multi-level shapes did not finish and are unregistered (experimental).',
        "DESIGN.md sections 3 and 8.3 C04", 'contract stubs for the operations below hss_sign_core'),
    "C05": (
        "Accounting arithmetic exact for every shape of 1..8 levels and every counter (lifetime = leaves - counter, increment, exhaustion threshold), wipe on the last "
        "leaf (counter 0, parameters 0xff, seed 0, same length) for every shape and seed, refusal of wiped keys, lifetime before/after one signature.",
        "Total height <= 63 for the exact arithmetic; HSS step over the LMS-layer contract.", "DESIGN.md section 3 C05", ""),
    "C06": (
        "Every byte string up to the stated caps, of every length, is pushed symbolically through the real parsers; verify-level code runs on arbitrary parsed "
        "structures; the level-count boundary is decided under a 2-level build. CBMC shows no panic, overflow, out-of-bounds index or unbounded loop inside the bounds.",
        "Bounded: buffers up to the per-harness caps; digests havoc; Winternitz chain summarised by the HashChain override in verify-level harnesses.",
        "DESIGN.md section 3 C06", ""),
    "C07": (
        'Tables and lengths against the RFC formulas for all 12 (n,w) x 6 heights; serialisation layout of LMS public keys and signatures for arbitrary field contents; coef = RFC coef; the default chain loop hashes I|q|u16(i)|u8(j)|prev for a symbolic 16-bit chain index; randomizer derivation; authentication path = sibling rule for every leaf.',
        'The Q pre-image I|q|0x8181|C|message (signer = verifier) and the candidate pre-image I|q|0x8080|.. are decided through a first/last-query recorder; that chain i is iterated exactly a_i times is NOT decided (those transcript harnesses abort in CBMC and are unregistered). Deviating checksum shifts for three (n,w) pairs are reported under C12 (known findings).',
        "DESIGN.md sections 3 and 8.3 C07", 'Rec transcripts'),
    "C08": (
        "Key blob layout / nibble packing / round trip for every parameter list (1..8 levels, all W x H), seed and counter; HSS public key layout; derivation transcripts against the hash-sigs layout: top-seed hashing (three 55-byte queries, only the seed's n bytes), child seed/identifier and randomizer (55-byte PRNG block), x_q[i] for p <= 18 chains, K = H(I|q|0x8080|y..) (thorough), chain step layout.",
        'Reference = my transcription of the hash-sigs layout (no reference binary in the sandbox); chain indices >= 256 (n=32/W1), tree node hashing and the SHA/SHAKE wrappers are not decided in this round.',
        "DESIGN.md sections 3 and 8.3 C08", 'Rec/RecSum transcripts'),
    "C09": (
        '2-run purity under a deterministic keyed toy hash family for the derivation units (root seed, child seed, randomizer, chain start values) with unrelated work in between; the in-memory SigningKey ends in exactly the successor the byte-level function hands out (every counter incl. the last leaf); the aux MAC key depends on the seed.',
        'HSS-level 2-run harnesses are unregistered (vacuous for a reason not understood); other threads/processes are outside (Kani models no concurrency).',
        "DESIGN.md sections 3 and 8.3 C09", '2-safety harness'),
    "C10": (
        "Level selection / shrunk length for every buffer length; layout of a fresh buffer; the MAC written by key generation and the MAC checked before any read-back are "
        "the same HMAC over exactly the level area with key H(0^20|0xfdfd|seed), compared over exactly n trailing bytes (odd and even cached levels; missing, short, long tail).",
        "Transparency (same keys/signatures with and without aux) end to end is outside this round; instances n=16.", "DESIGN.md section 3 C10", "Rec transcripts"),
    "C11": (
        "sign / get_lifetime for every key byte string of every length (n=16 and n=32), every small auxiliary buffer through the read-back path: error or result, never "
        "a panic, no callback on error paths.",
        "Expansion replaced by a failing contract; keygen with over-long parameter lists is covered by the native replay only.", "DESIGN.md section 3 C11", ""),
    "C12": (
        "D1 coef = RFC coef (all byte strings, indices, w); D2 checksum bytes = be16(sum << ls) for all 8n digest bits; D3 table = Appendix-B formula; D4 checksum digits carry the "
        "whole sum; two SMT side lemmas (z3 + cvc5) close domination-freeness. Exact for all 12 (n,w) pairs.",
        "The modus-ponens chaining D1, D2, D4, (i), (ii) => domination-freeness is a paper step. Three known findings (ls of (24,1), (16,1), (16,2)).",
        "DESIGN.md section 3 C12", "plus SMT-LIB lemmas discharged by z3 5.1 and cvc5 1.0"),
    "C13": (
        "Digit rule, injectivity, increment and lifetime arithmetic exact for every list of 1..8 levels over all heights and every counter (total height <= 63); "
        "taller lists: no arithmetic failure, same digit rule, no early exhaustion.",
        "One harness instance per level count (heights symbolic); quick tier covers 1..4 levels, thorough all 8.", "DESIGN.md section 3 C13", ""),
    "C14": (
        "Under each of several documented build configurations (levels 1/2/3, non-uniform per-level limits): generated capacities cover every admissible parameter list at every "
        "level's worst case; key blobs keep the default layout; keys beyond the limits are refused without panic; parser accepts the maximum level count and rejects more.",
        "Configurations: default, w8, l1w8h5, l2w8h5, l2mixed, l3mixed, l3w8h5; equality of signatures across configurations follows from the configuration-independent "
        "references of C07/C08 (paper).", "DESIGN.md section 3 C14", "one harness build per HBS_LMS_* configuration"),
    "C15": (
        "Only the mechanism compiled without the feature gate is decided: fast_verify_eval(Q) = sum of all p Winternitz digits of Q||Cksm(Q) for every digest and all 12 (n,w), no panic.",
        "Everything behind the fast_verify feature (trailer precondition, trailer-only mutation, leaf consumption, thread counts and interleavings, OS RNG) is outside: Kani 0.68 cannot "
        "compile the feature's dependency graph and models neither threads nor randomness.", "DESIGN.md section 3 C15", ""),
    "C16": (
        "For Seed, SeedAndLmsTreeIdentifier, ReferenceImplPrivateKey, LmsPrivateKey, LmotsPrivateKey: after zeroize() and after the real drop glue every secret byte "
        "(up to the container capacity, not only up to len) is zero, for every content; the exhausted key blob carries no seed byte.",
        "Real zeroize code, only the empty asm barrier stubbed; copies the compiler may leave in registers/stack moves are not observable.", "DESIGN.md section 3 C16", ""),
}

NOT_YET = {}


def main():
    props = [json.loads(l) for l in open(os.path.join(ROOT, "properties.jsonl"))]
    hooks_commits = subprocess.run(["git", "-C", "/repo", "log", "--format=%H %s"], capture_output=True, text=True).stdout.splitlines()
    hook_commits = [l.split()[0] for l in hooks_commits if "verif hooks" in l]
    checks, na = [], []
    have = {h["prop"] for h in registry.harnesses()} | {s["prop"] for s in registry.SMT_LEMMAS}
    for p in props:
        pid = p["id"]
        if pid in CLAIMS and pid in have:
            text, note, ref, tech = CLAIMS[pid]
            checks.append({
                "property_id": pid,
                "quick_cmd": f"bin/check {pid} --tier quick",
                "thorough_cmd": f"bin/check {pid} --tier thorough",
                "evidence_file": f"evidence/{pid}.json",
                "replay_cmd_template": "bin/check --replay {path}",
                "engine": "kani-cbmc",
                "level_claimed": {"category": "model_checking", "text": text, "design_ref": ref},
                "level_note": note,
                "technique": TECH + (("; " + tech) if tech else ""),
            })
        else:
            na.append({"property_id": pid, "reason": NOT_YET.get(pid, "check not built yet in this round (planned, see DESIGN.md section 3); no claim is made")})
    m = {
        "version": 1,
        "setup_cmd": "bin/check --setup",
        "hooks": {
            "guard": "--cfg hbs_lms_verif",
            "enable": "RUSTFLAGS='--cfg hbs_lms_verif' (set by bin/check for the harness crate and its path dependency /repo)",
            "baseline_off_cmd": "cd /repo && cargo test --workspace --no-fail-fast --offline",
            "source_commits": hook_commits,
            "add_only": True,
        },
        "engines": [
            {"name": "kani-cbmc", "path": "harness/", "serves_properties": sorted(have - {"SELFTEST", "SELFTEST_FAIL"}),
             "kind_free_text": "Kani 0.68 proof harnesses in an external crate with a path dependency on /repo; CBMC 6.11 + CaDiCaL decide them; driver bin/check"},
        ],
        "checks": checks,
        "not_applicable": na,
        "notes": "See DESIGN.md (section 8 = as built). Harnesses with tier experimental in bin/registry.py are run by no registered command and nothing is claimed from them. Exit 2 of a check means inconclusive (timeout, memory, build failure, bound too small, vacuous harness, non-reproducing counterexample); it is never reported as success or as a violation.",
    }
    json.dump(m, open(os.path.join(ROOT, "MANIFEST.json"), "w"), indent=1)
    print("wrote MANIFEST.json:", len(checks), "checks,", len(na), "not_applicable")


if __name__ == "__main__":
    main()
