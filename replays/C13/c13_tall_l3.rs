// replay for property C13, harness proofs::c13::c13_tall_l3
// build configuration: default {}
// repo revision: 1abe8f0fac52576d2e687e2356dd3e24042dbce9
// run: /verif/bin/check --replay /verif/replays/C13/c13_tall_l3.rs
use crate::proofs::c13::*;
/// Test generated for harness `proofs::c13::c13_tall_l3` 
///
/// Check for `assertion`: "attempt to subtract with overflow"
///
/// # Warning
///
/// Concrete playback tests combined with stubs or contracts is highly
/// experimental, and subject to change.
///
/// The original harness has stubs which are not applied to this test.
/// This may cause a mismatch of non-deterministic values if the stub
/// creates any non-deterministic value.
/// The execution path may also differ, which can be used to refine the stub
/// logic.

#[test]
fn kani_concrete_playback_c13_tall_l3_6334529617961609718() {
    let concrete_vals: Vec<Vec<u8>> = vec![
        // 4
        vec![4],
        // 4
        vec![4],
        // 4
        vec![4],
        // 17113458688ul
        vec![0, 168, 10, 252, 3, 0, 0, 0],
    ];
    kani::concrete_playback_run(concrete_vals, c13_tall_l3);
}
