// replay for property C13, harness proofs::c13::c13_tall_l4
// build configuration: default {}
// repo revision: 1abe8f0fac52576d2e687e2356dd3e24042dbce9
// run: /verif/bin/check --replay /verif/replays/C13/c13_tall_l4.rs
use crate::proofs::c13::*;
/// Test generated for harness `proofs::c13::c13_tall_l4` 
///
/// Check for `assertion`: "attempt to subtract with overflow"
///
/// # Warning
///
/// Concrete playback tests combined with stubs or contracts is highly
/// experimental, and subject to change.
///
/// The original harness has stubs which are not applied to this test.
/// This may cause a mismatch of non-deterministic values if the stub
/// creates any non-deterministic value.
/// The execution path may also differ, which can be used to refine the stub
/// logic.

#[test]
fn kani_concrete_playback_c13_tall_l4_12298277255987370490() {
    let concrete_vals: Vec<Vec<u8>> = vec![
        // 5
        vec![5],
        // 4
        vec![4],
        // 4
        vec![4],
        // 4
        vec![4],
        // 18446744073709551615ul
        vec![255, 255, 255, 255, 255, 255, 255, 255],
    ];
    kani::concrete_playback_run(concrete_vals, c13_tall_l4);
}
