// replay for property C12, harness proofs::c12::c12_d4_cksm_digits_n16_w2
// build configuration: default {}
// repo revision: 1abe8f0fac52576d2e687e2356dd3e24042dbce9
// run: /verif/bin/check --replay /verif/replays/C12/c12_d4_cksm_digits_n16_w2.rs
use crate::proofs::c12::*;
/// Test generated for harness `proofs::c12::c12_d4_cksm_digits_n16_w2` 
///
/// Check for `assertion`: ""checksum digits u..p carry the complete checksum value""
///
/// # Warning
///
/// Concrete playback tests combined with stubs or contracts is highly
/// experimental, and subject to change.
///
/// The original harness has stubs which are not applied to this test.
/// This may cause a mismatch of non-deterministic values if the stub
/// creates any non-deterministic value.
/// The execution path may also differ, which can be used to refine the stub
/// logic.

#[test]
fn kani_concrete_playback_c12_d4_cksm_digits_n16_w2_3407794354443817014() {
    let concrete_vals: Vec<Vec<u8>> = vec![
        // 128
        vec![128, 0],
    ];
    kani::concrete_playback_run(concrete_vals, c12_d4_cksm_digits_n16_w2);
}
